#!/venv/bin/python
"""CLI of the xobjects deterministic-simulation checks.

    check.py <Cxx> [--tier quick|thorough] [--seed N] [--budget S] [--runs N]
    check.py <Cxx> --replay replays/<Cxx>/<file>.json
    check.py <Cxx> --one <index>            (run one index, print its result)
    check.py selftest-determinism [props...]
    check.py selftest-mutants [names...]

Environment: VERIF_SEED, VERIF_TIER, VERIF_BUDGET_S, VERIF_RUNS, VERIF_WORKERS,
VERIF_REPO (tree under test, default /repo), VERIF_HASHSEED (default 0).
"""
import os
import sys

HERE = os.path.dirname(os.path.abspath(__file__))


def _reexec_pinned():
    want = os.environ.get("VERIF_HASHSEED", "0")
    if os.environ.get("PYTHONHASHSEED") != want:
        env = dict(os.environ)
        env["PYTHONHASHSEED"] = want
        env.setdefault("PYTHONDONTWRITEBYTECODE", "1")
        os.execve(sys.executable, [sys.executable] + sys.argv, env)


def main(argv):
    if len(argv) < 2 or argv[1] in ("-h", "--help"):
        print(__doc__)
        return 2
    _reexec_pinned()
    sys.path.insert(0, HERE)
    import warnings

    warnings.filterwarnings("ignore")
    from sim import driver

    cmd = argv[1]
    args = argv[2:]
    if cmd == "selftest-determinism":
        from sim import selftest

        return selftest.determinism(args)
    if cmd == "selftest-mutants":
        from sim import selftest

        return selftest.mutants(args)
    prop = cmd
    if prop not in driver.PROPS:
        print(f"unknown property {prop}; have {sorted(driver.PROPS)}", file=sys.stderr)
        return 2
    tier = os.environ.get("VERIF_TIER", "quick")
    seed = int(os.environ.get("VERIF_SEED", "0"))
    budget = None
    runs = None
    replay = None
    minimise = None
    one = None
    digests = None
    it = iter(args)
    for a in it:
        if a == "--tier":
            tier = next(it)
        elif a == "--seed":
            seed = int(next(it))
        elif a == "--budget":
            budget = float(next(it))
        elif a == "--runs":
            runs = int(next(it))
        elif a == "--replay":
            replay = os.path.abspath(next(it))
        elif a == "--minimise":
            minimise = os.path.abspath(next(it))
        elif a == "--one":
            one = int(next(it))
        elif a == "--digests":
            digests = int(next(it))
        else:
            print(f"unknown argument {a}", file=sys.stderr)
            return 2
    if digests is not None:
        from sim import selftest

        return selftest.cmd_digests(prop, seed, digests, tier)
    if minimise:
        return driver.cmd_minimise(prop, minimise, budget or 30)
    if replay:
        return driver.cmd_replay(prop, replay)
    if one is not None:
        import json

        d = driver.one_run(prop, seed, one, tier, want_replay=True)
        print(json.dumps(d, indent=1, default=str)[:20000])
        return 1 if d["viol"] else 0
    return driver.cmd_check(prop, tier, seed, budget_s=budget, max_runs=runs)


if __name__ == "__main__":
    sys.exit(main(sys.argv))
