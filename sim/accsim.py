"""Engine D — DevSim, accessor mode (C15; second sentence of C07).

A short ObjSim history populates a world (objects at arbitrary offsets of
fragmented / relocated buffers).  The accessor API of every generated type plus
one generated /*gpukern*/ wrapper per accessor (taking the object and
/*gpuglmem*/ index / output pointers, so that address spaces have to propagate
from a kernel argument through every cast) is then specialised for the four
targets through the real context code:

  cpu_serial, cpu_openmp  ContextCpu.build_kernels(compile=False) -> text -> gcc
  opencl                  ContextPyopencl.build_kernels against the stub platform
  cuda                    ContextCupy.build_kernels against the stub platform

The same images (raw buffer bytes) and the same call script (every access path,
every in-range index tuple, setters with seeded values) are run against the four
host-compiled specialisations:

  C15  results, getp offsets, lengths, member ids / addresses identical to the
       model / independent decoder on every target (hence identical to CPU); the
       images after the setters identical on every target and equal to the image
       with exactly the addressed bytes replaced; the OpenCL text is accepted by
       clang's OpenCL front-end in CL1.2 mode (no generic address space: a pointer
       into object memory that lost __global is an error) and in CL2.0 mode.
  C07  the cpu_serial text is also built stand-alone with ASan + UBSan and run over
       images held in heap blocks of exactly the image size (reference-free
       objects: their own extent; others: the whole buffer at exact capacity), so
       both ends are flush against red zones; any sanitizer report is a violation.
"""
import ctypes
import os
import subprocess

import numpy as np

from .core import RunResult, Viol, exc_sig
from . import seams, typegen, model as M, objsim, device
from .objsim import ObjWorld, Step, Skip
from .layout import DecodeError
from .capisim import c_paths, acc_name, lay_key

xo = seams.xo
CT = {"Float64": "double", "Float32": "float", "Int64": "int64_t", "UInt64": "uint64_t", "Int32": "int32_t", "UInt32": "uint32_t", "Int16": "int16_t", "UInt16": "uint16_t", "Int8": "int8_t", "UInt8": "uint8_t"}
TARGETS = ["cpu_serial", "cpu_openmp", "opencl", "cuda"]


def wrapper_source(kernels):
    """One /*gpukern*/ wrapper per accessor: uniform ABI (obj, idx*, out*)."""
    src = []
    desc = {}
    G = "/*gpuglmem*/"
    for name, k in kernels.items():
        obj = k.args[0]
        nidx = sum(1 for a in k.args[1:] if a.name.startswith("i") and a.name[1:].isdigit())
        call_args = ["obj"] + [f"idx[{j}]" for j in range(nidx)]
        tname = obj.atype._c_type
        body = []
        action = name[len(tname) + 1 :].split("_")[0].rstrip("0123456789")
        if action == "set":
            ct = k.args[-1].atype._c_type
            body.append(f"  {name}({', '.join(call_args)}, *({G} {ct}*) out);")
        elif action == "get":
            ct = k.ret.atype._c_type
            body.append(f"  *({G} {ct}*) out = {name}({', '.join(call_args)});")
        elif action in ("getp", "member"):
            body.append(f"  {G} char* p = ({G} char*) {name}({', '.join(call_args)});")
            body.append(f"  *({G} int64_t*) out = (int64_t)(p - ({G} char*) obj);")
        elif action in ("len", "typeid"):
            body.append(f"  *({G} int64_t*) out = (int64_t) {name}({', '.join(call_args)});")
        else:
            continue
        src.append(f"/*gpukern*/\nvoid xw_{name}({tname} obj, {G} const int64_t* idx, {G} int8_t* out_){{\n  {G} char* out = ({G} char*) out_;\n" + "\n".join(body) + "\n}")
        desc["xw_" + name] = xo.Kernel(args=[xo.Arg(obj.atype, name="obj"), xo.Arg(xo.Int64, pointer=True, const=True, name="idx"), xo.Arg(xo.Int8, pointer=True, name="out")], n_threads=1, c_name="xw_" + name)
    return "\n".join(src) + "\n", desc


def build_cpu_so(text, openmp):
    k = next(device._counter)
    base = os.path.abspath(f"xoacc_{os.getpid()}_{k}")
    with open(base + ".c", "w") as f:
        f.write(text)
    try:
        cmd = ["gcc", "-x", "c", "-std=c99", "-shared", "-fPIC", "-O0", "-w", base + ".c", "-o", base + ".so"] + (["-fopenmp"] if openmp else [])
        p = subprocess.run(cmd, capture_output=True, text=True, timeout=120)
        if p.returncode != 0:
            raise device.DeviceBuildError(p.stderr[-1500:])
        return ctypes.CDLL(base + ".so", mode=ctypes.RTLD_LOCAL)
    finally:
        for ext in (".c", ".so"):
            try:
                os.remove(base + ext)
            except OSError:
                pass


class AccSim:
    name = "accsim"
    needs_scratch = True
    components = {
        "real": ["capi.py generators (_gen_c_api / _gen_kernels) for every generated type", "specialize_source for cpu_serial, cpu_openmp, opencl, cuda", "ContextCpu.build_kernels (source assembly), ContextPyopencl.build_kernels, ContextCupy.build_kernels incl. sort_classes and the target headers", "ObjSim world construction (objects, references, relocation) for the images"],
        "stub": ["pyopencl / cupy replaced by fakes; OpenCL text compiled on the host as C, CUDA text as C++, behind a shim defining the target keywords away", "clang -x cl -fsyntax-only as OpenCL front-end (CL1.2 and CL2.0)", "accessors are reached through generated /*gpukern*/ wrappers with a uniform (obj, idx*, out*) signature", "sanitizer run: gcc -fsanitize=address,undefined on the cpu_serial text with a generated driver"],
    }
    not_claimed = {
        "C15": ["the purely textual 'differing only in target qualifiers': its executable consequence (same results and offsets on a stub device) is decided instead", "behaviour of real OpenCL / CUDA compilers"],
        "C07": ["undefined behaviour on paths that are not executed"],
    }
    assumptions = {"C15": ["a host C/C++ compiler with the target keywords defined away computes what the device compiler would for address arithmetic on 64-bit little-endian targets"], "C07": ["absolute alignment is checked only in worlds whose buffers are 8-aligned (the property speaks of alignment relative to the object start)"]}

    def gen_world(self, rng, tier):
        profile = rng.choice(["construct", "construct", "refs", "assign"])
        spec = objsim.gen_world(rng, profile, tier, no_twins=True)
        spec["switches"]["steps"] = rng.choice([4, 8, 12, 20])
        spec["switches"]["max_types"] = min(spec["switches"]["max_types"], 6)
        for b in spec["buffers"]:
            b["align"] = max(8, b["align"] or 8)
        # unions that declare dependencies of their own (classes their methods use): the program is
        # assembled once per target in this process, every time from the same class objects
        sch = spec["schema"]
        for ui, ty in enumerate(sch):
            if ty["k"] == "uref" and rng.random() < 0.5:
                cands = [i for i in range(ui) if sch[i]["k"] in ("struct", "array") and i not in ty["members"] and sum(1 for x in sch if x.get("name") == sch[i].get("name")) == 1]
                if cands:
                    ty["depends"] = [rng.choice(cands)]
        big = []
        for _ in range(rng.choice([1, 1, 2])):
            item = rng.choice(["Int8", "Float64", "Int32", "UInt16"])
            if rng.random() < 0.5:
                shape = [rng.choice([2**31 + 17, 3 * 10**9, 2**32 + 5, 2**29 + 3])]
            else:
                shape = [rng.choice([70000, 2**16 + 1, 50000]), rng.choice([70000, 2**16 + 3, 40000])]
            idx = [[d - 1 - rng.choice([0, 1, 5]) for d in shape], [d // 2 + 1 for d in shape], [0 for _ in shape]]
            big.append({"item": item, "shape": shape, "idx": idx})
        spec["acc"] = {"decl_conf": rng.choice(["empty", "empty", "default"]), "decl_first": rng.random() < 0.3, "cpu_first": rng.random() < 0.4, "big": big, "profile": profile, "omp": rng.choice([2, "auto"]), "sanitize": True, "nset": rng.choice([2, 6, 12]), "set_seed": rng.getrandbits(30)}
        return spec

    def run(self, prop, profile, rng=None, replay=None, tier="quick"):
        res = RunResult()
        res.profile = profile
        if replay is not None:
            spec = replay["world"]
            src = objsim.ListSource(replay["ops"])
        else:
            spec = self.gen_world(rng, tier)
            src = objsim.GenSource(rng, spec["acc"]["profile"], spec)
        ops = []
        res.replay = {"world": spec, "ops": ops, "profile": profile, "engine": "accsim"}
        old_default = (xo.typeutils.context_default, xo.hybrid_class.context_default)
        old_info = xo.ContextCpu._compile_kernels_info
        xo.ContextCpu._compile_kernels_info = False
        w = ObjWorld(spec)
        default_ctx = seams.SimContext(plan={"on_new": w._on_new, "align": 8})
        xo.typeutils.context_default = default_ctx
        xo.hybrid_class.context_default = default_ctx
        w.default_ctx = default_ctx
        try:
            while True:
                op = src.next(w)
                if op is None:
                    break
                self._align_op(op)
                st = Step(w, op, res, prop)
                try:
                    st.execute()
                except Skip:
                    res.skipped += 1
                    continue
                ops.append(op)
                res.steps += 1
                res.log.append([res.steps, op["op"], st.outcome, sorted({v.oracle for v in st.viols})])
                if st.viols:
                    res.viols = st.viols  # python-side divergence: foreign to C15 / C07
                    res.viol_step = res.steps - 1
                    return res
            with device.installed():
                viols = self.accessor_phase(w, spec, res, prop)
            res.steps += 1
            res.own_ops += 1
            res.log.append([res.steps, "accessors", sorted({v.oracle for v in viols})])
            if viols:
                res.viols = viols
                res.viol_step = res.steps - 1
        finally:
            xo.typeutils.context_default, xo.hybrid_class.context_default = old_default
            xo.ContextCpu._compile_kernels_info = old_info
        for b in w.bufs:
            for kf, n in b._ctl.fired.items():
                res.fault(kf, n)
        return res

    @staticmethod
    def _align_op(op):
        if op.get("op") == "raw_alloc":
            op["align"] = True
            op["size"] = (op["size"] + 7) // 8 * 8
        pl = op.get("place")
        if isinstance(pl, dict) and pl.get("how") == "packed":
            pl["how"] = "aligned"
        if isinstance(pl, dict) and pl.get("how") == "offset":
            pl["align"] = True
            pl["pad"] = (pl.get("pad", 0) + 7) // 8 * 8

    # ------------------------------------------------------------------
    def accessor_phase(self, w, spec, res, prop):
        viols = []

        def viol(p, oracle, sig, detail):
            viols.append(Viol(p, oracle, [str(s) for s in sig], detail))

        schema = w.schema
        kern = {}
        roots = []
        if spec["acc"].get("decl_first"):
            # history: the cffi declarations of the classes (generated with the empty configuration,
            # as ContextCpu.build_kernels does) come into being before any source text or kernel list
            for t, cls in enumerate(w.classes):
                if schema[t]["k"] in ("struct", "array", "uref"):
                    # (or with the default configuration, which is what the public method uses when
                    # it is called without an argument)
                    if spec["acc"].get("decl_conf", "empty") == "default":
                        cls._gen_c_decl()
                    else:
                        cls._gen_c_decl({})
            res.fault("declarations_generated_first")
        for t, cls in enumerate(w.classes):
            if schema[t]["k"] in ("struct", "array", "uref"):
                kern.update(cls._gen_kernels())
                roots.append(cls)
        # never-instantiated static array types larger than 2**31 bytes: their getp accessors are
        # pure address arithmetic, so in-range indices near the top can be evaluated on a fictitious
        # base pointer and compared across targets (index products that do not fit 32 bits)
        bigcalls = []
        for bt in spec["acc"].get("big", []):
            cls = getattr(xo, bt["item"])[tuple(bt["shape"]) if len(bt["shape"]) > 1 else bt["shape"][0]]
            if cls.__name__ in {c.__name__ for c in roots}:
                continue
            kern.update(cls._gen_kernels())
            roots.append(cls)
            isz = typegen.SC_SIZE[bt["item"]]
            strides = [isz] * len(bt["shape"])
            for ax in range(len(bt["shape"]) - 2, -1, -1):
                strides[ax] = strides[ax + 1] * bt["shape"][ax + 1]
            for idx in bt["idx"]:
                off = sum(i * st for i, st in zip(idx, strides))
                bigcalls.append({"name": f"xw_{cls.__name__}_getp{len(idx)}", "idx": list(idx), "expect": off})
        if not roots:
            return viols
        wsrc, wdesc = wrapper_source(kern)
        res.probe("accessors_generated", len(kern))
        if spec["acc"].get("cpu_first"):
            # history of the process: the usual order of events — a real (compiled) CPU build of the
            # same classes first, the other targets afterwards. Nothing the CPU build leaves behind in
            # the library may change what is generated for the next target.
            try:
                _, d0 = wrapper_source(kern)
                xo.ContextCpu().add_kernels(kernels=d0, sources=[wsrc], extra_classes=list(roots), extra_compile_args=("-O0", "-Wno-unused-function"), extra_link_args=("-O0",))
                res.fault("earlier_cpu_build_in_process")
            except Exception as e:
                viol("C14", "accessor_build_failed", [type(e).__name__], f"{type(e).__name__}: {str(e)[-800:]}")
                return viols
        # ---- specialise and build for the four targets through the real context code
        # (lens C07 needs the cpu_serial text only: its oracle is the sanitizer run below)
        targets = ["cpu_serial"] if prop == "C07" else TARGETS
        libs, texts = {}, {}
        for t in targets:
            try:
                _, d = wrapper_source(kern)  # fresh descriptions: build_kernels rewrites arg types in place
                if t.startswith("cpu"):
                    c = xo.ContextCpu(omp_num_threads=0 if t == "cpu_serial" else spec["acc"]["omp"])
                    out = c.build_kernels(kernel_descriptions=d, sources=[wsrc], extra_classes=list(roots), compile=False)
                    texts[t] = next(iter(out.values())).specialized_source
                    libs[t] = build_cpu_so(texts[t], t == "cpu_openmp")
                elif t == "opencl":
                    c = xo.ContextPyopencl(patch_pyopencl_array=False, minimum_alignment=1)
                    out = c.build_kernels(kernel_descriptions=d, sources=[wsrc], extra_classes=list(roots))
                    k0 = next(iter(out.values()))
                    texts[t], libs[t] = k0.specialized_source, k0.function.lib
                else:
                    c = xo.ContextCupy()
                    out = c.build_kernels(kernel_descriptions=d, sources=[wsrc], extra_classes=list(roots))
                    k0 = next(iter(out.values()))
                    texts[t], libs[t] = k0.specialized_source, k0.function.lib
            except Exception as e:
                viol("C15", "specialisation_rejected_by_host_compiler", [t, type(e).__name__], f"{t}: {type(e).__name__}: {str(e)[-1500:]}")
                return viols
            res.probe("built_" + t)
        # ---- OpenCL front-end: address spaces
        for std in ("CL1.2", "CL2.0") if "opencl" in texts else ():
            rc, err = device.clang_cl_check(texts["opencl"], std)
            if rc != 0:
                kind = "address_space" if "address space" in err else "other"
                viol("C15", "opencl_front_end_rejects_text", [std, kind], f"clang -x cl -cl-std={std}: {err[-1200:]}")
                return viols
            res.probe("opencl_front_end_" + std)
        # ---- big static arrays: address arithmetic only
        for c in bigcalls:
            for t in targets:
                try:
                    fn = getattr(libs[t], c["name"])
                except AttributeError:
                    viol("C15", "accessor_missing_in_specialisation", [t, "getp"], c["name"])
                    return viols
                idx = (ctypes.c_int64 * 8)(*(c["idx"] + [0] * (8 - len(c["idx"]))))
                out = (ctypes.c_char * 16)()
                fn.restype = None
                fn(ctypes.c_void_p(1 << 40), idx, out)
                got = int.from_bytes(bytes(out[:8]), "little", signed=True)
                if got != c["expect"]:
                    viol("C15", "target_result_differs_from_layout", [t, "getp", "big_static_array", "direct"], f"{t}: {c['name']}{c['idx']} -> +{got}, layout says +{c['expect']}")
                    return viols
            res.probe("big_static_array_offsets")
        # ---- images and script
        images = [np.frombuffer(seams.raw_bytes(b), dtype=np.uint8).copy() for b in w.bufs]
        script = []
        objs = [o for o in w.live_objs() if schema[o.t]["k"] in ("struct", "array")]
        for o in objs:
            try:
                lay = {}
                ll = []
                w.dec.decode(o.t, seams.raw_bytes(o.buf), o.off, o.bufid, ll, None, (), True)
                lay = {p: (s, e, kd) for p, s, e, kd in ll}
            except DecodeError:
                continue
            script.extend(self.calls_for(w, o, lay))
        if not script:
            return viols
        if prop == "C07":
            # same step, same state: the sanitizer oracle is evaluated before the value comparisons
            # of the (single) cpu_serial target below, so that it cannot be masked by them
            import random as _r

            rr = _r.Random(spec["acc"]["set_seed"])
            leaves0 = [c for c in script if c["action"] == "get"]
            rr.shuffle(leaves0)
            sets0, seen0 = [], set()
            for c in leaves0[: spec["acc"]["nset"]]:
                if (c["buf"], c["start"]) in seen0:
                    continue
                seen0.add((c["buf"], c["start"]))
                sets0.append(dict(c, action="set", name=c["name"].replace("_get", "_set", 1), value=bytes.fromhex(M.gen_scalar(rr, c["sct"])["x"])))
            self.sanitize(w, texts["cpu_serial"], images, script, sets0, objs, res, viol)
            if viols:
                return viols
        import random

        r = random.Random(spec["acc"]["set_seed"])
        leaves = [c for c in script if c["action"] == "get"]
        r.shuffle(leaves)
        sets = []
        seen = set()
        for c in leaves[: spec["acc"]["nset"]]:
            key = (c["buf"], c["start"])
            if key in seen:
                continue
            seen.add(key)
            sets.append(dict(c, action="set", name=c["name"].replace("_get", "_set", 1), value=bytes.fromhex(M.gen_scalar(r, c["sct"])["x"])))
        res.probe("script_calls", len(script))
        res.probe("script_setters", len(sets))
        # ---- run on every target
        final = {}
        for t in targets:
            lib = libs[t]
            imgs = [im.copy() for im in images]
            for c in script:
                got = self.call(lib, t, imgs[c["buf"]], c)
                if got is None:
                    viol("C15", "accessor_missing_in_specialisation", [t, c["action"]], f"{c['name']} not exported by the {t} build")
                    return viols
                if c["expect"] is not None and got != c["expect"]:
                    viol("C15", "target_result_differs_from_layout", [t, c["action"], c["kind"], "xref" if c["xref"] else "direct"], f"{t}: {c['name']}{c['idx']} on object {c['obj']} -> {self.show(c, got)}, documented layout / model says {self.show(c, c['expect'])}")
                    return viols
                c.setdefault("seen", {})[t] = got
            for c in sets:
                if self.call(lib, t, imgs[c["buf"]], c) is None:
                    viol("C15", "accessor_missing_in_specialisation", [t, "set"], f"{c['name']}")
                    return viols
            final[t] = imgs
            res.features.add(f"{t}:ran")
        for c in script:
            vals = c.get("seen", {})
            if len({v for v in vals.values()}) > 1:
                viol("C15", "targets_disagree", [c["action"], c["kind"]], f"{c['name']}{c['idx']}: {({t: self.show(c, v) for t, v in vals.items()})}")
                return viols
        want = [im.copy() for im in images]
        for c in sets:
            want[c["buf"]][c["start"] : c["start"] + len(c["value"])] = np.frombuffer(c["value"], dtype=np.uint8)
        for t in targets:
            for i, (a, b) in enumerate(zip(final[t], want)):
                if not np.array_equal(a, b):
                    j = int(np.nonzero(a != b)[0][0])
                    viol("C15", "setter_image_differs", [t], f"{t}: buffer {i} byte {j} differs from the image with exactly the addressed elements replaced ({len(sets)} setters)")
                    return viols
        for k in set(c["kind"] for c in script):
            res.features.add("kind:" + k)
        # ---- sanitizer run of the cpu_serial text (C07, second sentence)
        return viols

    def calls_for(self, w, o, lay):
        schema = w.schema
        out = []
        tname = schema[o.t]["name"]
        for path, t, node in c_paths(schema, o.t, o.node, maxn=120):
            k = schema[t]["k"]
            ext = lay.get(lay_key(path))
            if ext is None:
                continue
            base = dict(obj=o.k, buf=w.bufs.index(o.buf), off=o.off, kind=k, xref="*" in path, start=ext[0])
            _, kw = acc_name(tname, "get", path, False)
            idx = list(kw.values())
            rel = (ext[0] - o.off).to_bytes(8, "little", signed=True)
            if k == "sc":
                val = None if node is M.UNDEF else node
                out.append(dict(base, action="get", name="xw_" + acc_name(tname, "get", path, False)[0], idx=idx, expect=val, sct=schema[t]["t"]))
                out.append(dict(base, action="getp", name="xw_" + acc_name(tname, "getp", path, True)[0], idx=idx, expect=rel))
            elif k in ("str", "struct", "array", "uref"):
                out.append(dict(base, action="getp", name="xw_" + acc_name(tname, "getp", path, True)[0], idx=idx, expect=rel))
                if k == "array":
                    n = 1
                    for d in node.shape:
                        n *= d
                    out.append(dict(base, action="len", name="xw_" + acc_name(tname, "len", path, True)[0], idx=idx, expect=n.to_bytes(8, "little", signed=True)))
                elif k == "uref":
                    m = node.m if node.to is not None else -1
                    out.append(dict(base, action="typeid", name="xw_" + acc_name(tname, "typeid", path, False)[0], idx=idx, expect=m.to_bytes(8, "little", signed=True)))
                    tgt = lay.get(lay_key(path) + ("*",))
                    if node.to is not None and tgt is not None:
                        out.append(dict(base, action="member", name="xw_" + acc_name(tname, "member", path, False)[0], idx=idx, expect=(tgt[0] - o.off).to_bytes(8, "little", signed=True)))
        return out

    @staticmethod
    def show(c, b):
        if b is None:
            return "?"
        if c["action"] == "get":
            dt = np.dtype(typegen.SC_DTYPE[c["sct"]])
            return repr(np.frombuffer(b[: dt.itemsize], dtype=dt)[0])
        return "+" + str(int.from_bytes(b[:8], "little", signed=True))

    def call(self, lib, target, img, c):
        try:
            fn = getattr(lib, c["name"])
        except AttributeError:
            return None
        nidx = max(8, len(c["idx"]))
        idx = (ctypes.c_int64 * nidx)(*(c["idx"] + [0] * (nidx - len(c["idx"]))))
        out = (ctypes.c_char * 16)()
        if c["action"] == "set":
            ctypes.memmove(out, c["value"], len(c["value"]))
        fn.restype = None
        fn(ctypes.c_void_p(int(img.ctypes.data) + c["off"]), idx, out)
        if c["action"] == "get":
            n = np.dtype(typegen.SC_DTYPE[c["sct"]]).itemsize
            return bytes(out[:n])
        return bytes(out[:8])

    # ------------------------------------------------------------------
    def sanitize(self, w, text, images, script, sets, objs, res, viol):
        schema = w.schema
        # image per object: own extent when reference-free, else the whole buffer at exact capacity
        L = ["#include <stdlib.h>", "#include <string.h>", "#include <stdio.h>"]
        blocks = {}
        body = []
        for o in objs:
            whole = typegen.has_refs(schema, o.t)
            bi = w.bufs.index(o.buf)
            if whole:
                key = ("buf", bi)
                data = images[bi]
                shift = 0
            else:
                try:
                    _, end = w.dec.decode(o.t, seams.raw_bytes(o.buf), o.off, o.bufid)
                except DecodeError:
                    continue
                key = ("obj", o.k)
                data = images[bi][o.off : end]
            if key not in blocks:
                nm = f"img_{key[0]}{key[1]}"
                blocks[key] = nm
                arr = ",".join(str(int(x)) for x in data) or "0"
                L.append(f"static const unsigned char {nm}_data[] = {{{arr}}};")
                body.append(f"  char* {nm} = (char*) malloc({max(len(data), 0)}); if ({len(data)}) memcpy({nm}, {nm}_data, {len(data)});")
                res.probe("sanitizer_image_" + key[0])
        body.append("  char out[16]; int64_t idx[16];")
        okeys = {o.k: (("buf", w.bufs.index(o.buf)), o.off) if typegen.has_refs(schema, o.t) else (("obj", o.k), 0) for o in objs}
        ncalls = 0
        for j, c in enumerate(list(script) + list(sets)):
            key, off = okeys[c["obj"]]
            if key not in blocks:
                continue
            for q, v in enumerate(c["idx"]):
                body.append(f"  idx[{q}] = {v};")
            if c["action"] == "set":
                body.append("  memcpy(out, \"" + "".join(f"\\x{b:02x}" for b in c["value"]) + f"\", {len(c['value'])});")
            tname = c["name"][3:].split("_")[0]
            body.append(f"  memset(out, 0, 16);" if c["action"] != "set" else "  ;")
            body.append(f"  {c['name']}(({self._objtype(schema, w, c)})({blocks[key]} + {off}), idx, out);")
            ncalls += 1
        for nm in blocks.values():
            body.append(f"  free({nm});")
        body.append('  printf("done %d\\n", ' + str(ncalls) + ");")
        src = text + "\n" + "\n".join(L) + "\nint main(void){\n" + "\n".join(body) + "\n  return 0;\n}\n"
        k = next(device._counter)
        base = os.path.abspath(f"xosan_{os.getpid()}_{k}")
        with open(base + ".c", "w") as f:
            f.write(src)
        try:
            p = subprocess.run(["gcc", "-x", "c", "-std=c99", "-O0", "-g", "-w", "-fsanitize=address,undefined", "-fno-sanitize-recover=all", "-fno-omit-frame-pointer", base + ".c", "-o", base + ".exe"], capture_output=True, text=True, timeout=300)
            if p.returncode != 0:
                res.error = f"harness: sanitizer driver does not compile: {p.stderr[-1500:]}"
                return
            env = dict(os.environ, ASAN_OPTIONS="detect_leaks=0:abort_on_error=0", UBSAN_OPTIONS="print_stacktrace=1:halt_on_error=1")
            q = subprocess.run([base + ".exe"], capture_output=True, text=True, timeout=300, env=env)
            res.probe("sanitizer_runs")
            res.probe("sanitizer_calls", ncalls)
            if q.returncode != 0 or "runtime error" in q.stderr or "AddressSanitizer" in q.stderr:
                first = [l for l in q.stderr.splitlines() if "runtime error" in l or "ERROR: AddressSanitizer" in l][:1]
                kind = "asan" if "AddressSanitizer" in q.stderr else "ubsan"
                what = (first[0].split("runtime error:")[-1].strip().split(" ")[0:3] if first and "runtime error" in first[0] else first[0].split("AddressSanitizer:")[-1].strip().split(" ")[0:1] if first else ["exit", str(q.returncode)])
                viol("C07", "sanitizer_report", [kind] + what, f"exit {q.returncode}: {q.stderr[-1500:]}")
        finally:
            for ext in (".c", ".exe"):
                try:
                    os.remove(base + ext)
                except OSError:
                    pass

    @staticmethod
    def _objtype(schema, w, c):
        o = w.objs[c["obj"]]
        return schema[o.t]["name"]
