"""Executable specification of a first-fit free-list allocator.

Written from the statements of C04/C12 and Architecture.md; imports nothing
from xobjects.  State: capacity, sorted disjoint maximal free ranges, live
regions, bytes lost to alignment padding.
"""


def align_up(x, a):
    return (x + a - 1) // a * a


class AllocSpec:
    def __init__(self, capacity):
        self.capacity = capacity
        self.free = [[0, capacity]] if capacity > 0 else []
        self.live = {}  # handle -> (offset, size)
        self.lost = 0
        self._next = 0

    # -- queries -------------------------------------------------------------
    def find_fit(self, size, alignment):
        """First (lowest-addressed) free range that can hold size at alignment.
        Returns (range index, aligned offset) or None."""
        for k, (s, e) in enumerate(self.free):
            off = align_up(s, alignment)
            if off + size <= e:
                return k, off
        return None

    def free_total(self):
        return sum(e - s for s, e in self.free)

    def live_total(self):
        return sum(sz for _, sz in self.live.values())

    def shape(self):
        """Normalised free-list shape (for the distinct-state measure)."""
        return tuple((s, e) for s, e in self.free)

    # -- transitions -----------------------------------------------------------
    def take(self, k, off, size):
        s, e = self.free[k]
        self.lost += off - s
        ns = off + size
        if ns >= e:
            del self.free[k]
        else:
            self.free[k][0] = ns
        h = self._next
        self._next += 1
        self.live[h] = (off, size)
        return h

    def take_zero(self, off):
        """A zero-size request served at `off` (placement of empty requests is
        not prescribed): bytes skipped in the range that contains it are lost."""
        for k, (s, e) in enumerate(self.free):
            if s <= off <= e:
                self.lost += off - s
                if off >= e:
                    del self.free[k]
                else:
                    self.free[k][0] = off
                break
        h = self._next
        self._next += 1
        self.live[h] = (off, 0)
        return h

    def grown_to(self, newcap):
        """The buffer now has capacity newcap > old: new bytes are free."""
        old = self.capacity
        assert newcap >= old
        if newcap > old:
            if self.free and self.free[-1][1] == old:
                self.free[-1][1] = newcap
            else:
                self.free.append([old, newcap])
        self.capacity = newcap

    def release(self, h):
        off, size = self.live.pop(h)
        if size == 0:
            return "empty"
        # insert sorted, merge touching
        kind = []
        k = 0
        while k < len(self.free) and self.free[k][0] < off:
            k += 1
        self.free.insert(k, [off, off + size])
        # merge right
        if k + 1 < len(self.free) and self.free[k + 1][0] == off + size:
            self.free[k][1] = self.free[k + 1][1]
            del self.free[k + 1]
            kind.append("right")
        if k > 0 and self.free[k - 1][1] == off:
            self.free[k - 1][1] = self.free[k][1]
            del self.free[k]
            kind.append("left")
        return "+".join(kind) or "isolated"

    def overlaps_live(self, off, size, skip=None):
        for h, (o, s) in self.live.items():
            if h == skip:
                continue
            if size > 0 and s > 0 and off < o + s and o < off + size:
                return h
        return None
