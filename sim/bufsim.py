"""Engine A — BufSim: buffer and allocator level (C04, C12, C13).

A run = a seeded world (1-3 Sim buffers of both CPU kinds on 1-2 contexts)
driven through a seeded history of {alloc, free, grow, write, read,
mutate_extracted, mutate_view} with injected storage-creation failures, and a
reference model (AllocSpec + whole-buffer shadow bytes) compared after every
step.  All oracles run in every run; the property lens only selects the
profile mix and which verdicts are reported.
"""
import numpy as np

from .core import RunResult, Viol, exc_sig
from .allocspec import AllocSpec, align_up
from . import seams

CAPS = [0, 1, 7, 8, 9, 16, 24, 32, 64, 100, 256, 1024, 4096]
ALIGNS = [None, 1, 2, 4, 8, 16, 32, 64]
GROW_STEPS = [None, 1, 8, 24, 64, 1000]
DTYPES = ["int8", "uint8", "int16", "uint16", "int32", "uint32", "int64", "uint64", "float32", "float64"]
WRITE_PRIMS = ["from_buffer", "from_native_self", "from_native_other", "from_xbuffer", "from_nplike"]
READ_PRIMS = ["to_bytearray", "to_native", "copy_to_native", "to_nplike", "to_nparray", "to_pointer_arg"]
SRC_FORMS = ["bytes", "bytearray", "memoryview", "npdata_u8", "npdata_i8", "npdata_typed", "array_d", "array_i", "array_H", "ctypes_d", "ctypes_i32"]
NP_LAYOUTS = ["c1d", "c2d", "f2d", "strided1d", "strided2d", "c3d", "be1d", "be2d"]


def pbytes(seed, n):
    """Deterministic pseudo-random bytes from an explicit operand (no PRNG draw)."""
    if n <= 0:
        return b""
    return np.random.Generator(np.random.PCG64(seed & 0xFFFFFFFF)).integers(1, 256, n, dtype=np.uint8).tobytes()


# ------------------------------------------------------------------------------
# world generation


def gen_world(rng, profile):
    tiny = rng.random() < (0.55 if profile != "deep" else 0.1)
    nctx = rng.choice([1, 1, 2])
    nbuf = rng.choice([1, 1, 2, 3])
    if profile == "primitives":
        nbuf = max(nbuf, 2) if rng.random() < 0.7 else nbuf
    bufs = []
    for b in range(nbuf):
        cap = rng.choice(CAPS[:8]) if tiny else rng.choice(CAPS)
        bufs.append(
            {
                "ctx": rng.randrange(nctx),
                "kind": rng.choice(["numpy", "bytearray"]),
                "capacity": cap,
                "align": rng.choice(ALIGNS[:6] if tiny else ALIGNS),
                "grow_step": rng.choice(GROW_STEPS),
            }
        )
    # a context hands its storage objects to update_from_native of every buffer
    # that shares it; mixing the two kinds under one context is not a
    # configuration ContextCpu produces (it only makes BufferNumpy), so buffers
    # sharing a context share a kind.
    kind_of_ctx = {}
    for b in bufs:
        kind_of_ctx.setdefault(b["ctx"], b["kind"])
        b["kind"] = kind_of_ctx[b["ctx"]]
    large = profile == "large"
    if large:
        # block-size boundaries: chunked transfers go wrong at powers of two
        nctx = 2
        bufs = [
            {"ctx": b % 2, "kind": rng.choice(["numpy", "bytearray"]), "capacity": rng.choice([0, 4096, 65536, 131072, 262144]), "align": rng.choice([None, 1, 8, 64]), "grow_step": rng.choice([None, 1000, 65536])}
            for b in range(rng.choice([2, 2, 3]))
        ]
        kind_of_ctx = {}
        for b in bufs:
            kind_of_ctx.setdefault(b["ctx"], b["kind"])
            b["kind"] = kind_of_ctx[b["ctx"]]
        tiny = False
    world = {
        "contexts": [{"omp": 0} for _ in range(nctx)],
        "buffers": bufs,
        "switches": {
            "tiny": tiny,
            "max_size": rng.choice([4, 8, 8, 16]) if tiny else rng.choice([16, 64, 300, 2000]),
            "max_live": rng.choice([3, 6, 6, 10]) if tiny else rng.choice([6, 12, 30]),
            "steps": rng.choice([5, 10, 20, 40, 80, 120]),
            "p_fill": rng.choice([0.0, 0.5, 1.0, 1.0]),
            "large": large,
        },
        "fail_newbuf_at": {},
    }
    if large:
        world["switches"].update(steps=rng.choice([6, 10, 16]), max_live=4, p_fill=1.0)
    if profile == "alloc_fail":
        for b in range(len(bufs)):
            k = rng.choice([1, 2, 3])
            # ordinal 1 is the constructor's own call; fail later ones
            world["fail_newbuf_at"][str(b)] = sorted(rng.sample(range(2, 14), k))
    return world


# ------------------------------------------------------------------------------


class _Region:
    __slots__ = ("buf", "h", "off", "size", "aligned")

    def __init__(self, buf, h, off, size, aligned):
        self.buf, self.h, self.off, self.size, self.aligned = buf, h, off, size, aligned


class BufWorld:
    def __init__(self, world):
        self.spec = world
        self.ctxs = [seams.xo.ContextCpu(omp_num_threads=c["omp"]) for c in world["contexts"]]
        self.bufs = []
        self.models = []
        self.shadow = []
        self.epoch = []  # incremented at each storage replacement
        for i, b in enumerate(world["buffers"]):
            buf = seams.make_buffer(b["kind"], self.ctxs[b["ctx"]], b["capacity"], b["align"], b["grow_step"], i)
            buf._ctl.fail_newbuf_at = set(world.get("fail_newbuf_at", {}).get(str(i), []))
            buf._ctl.armed = True
            self.bufs.append(buf)
            self.models.append(AllocSpec(b["capacity"]))
            self.shadow.append(bytearray(seams.raw_bytes(buf)))
            self.epoch.append(0)
        self.regions = []  # creation index -> _Region or None (freed)
        self.extracted = []  # (kind, object, snapshot bytes)
        self.views = []  # (buf index, epoch, abs offset, dtype, shape, ndarray)

    def alignment(self, b, aligned):
        return self.bufs[b].default_alignment if aligned else 1

    def live_regions(self, b=None):
        return [k for k, r in enumerate(self.regions) if r is not None and (b is None or r.buf == b)]


# ------------------------------------------------------------------------------
# op generation (draws from rng, consults only the model)


class GenSource:
    BIG = 1 << 19  # largest whole-range request
    def __init__(self, rng, profile, world):
        self.rng = rng
        self.profile = profile
        self.sw = world["switches"]
        self.n = 0
        self.pending = []  # biased follow-ups

    def next(self, w):
        if self.n >= self.sw["steps"]:
            return None
        self.n += 1
        if self.pending:
            return self.pending.pop(0)
        rng = self.rng
        nb = len(w.bufs)
        live = w.live_regions()
        prof = self.profile
        r = rng.random()
        if prof == "large":
            if len(live) < 2 or (r < 0.25 and len(live) < self.sw["max_live"]):
                return self._alloc(w)
            if r < 0.3:
                return self._free(w, live)
            if r < 0.8:
                return self._write(w, live)
            return self._read(w, live)
        if prof == "primitives":
            if not live or (r < 0.15 and len(live) < self.sw["max_live"]):
                return self._alloc(w)
            if r < 0.20:
                return self._free(w, live)
            if r < 0.25:
                return self._grow(w)
            if r < 0.65:
                return self._write(w, live)
            if r < 0.85:
                return self._read(w, live)
            if r < 0.92 and w.extracted:
                return {"op": "mutate_extracted", "x": rng.randrange(len(w.extracted)), "seed": rng.getrandbits(32)}
            if w.views:
                return {"op": "mutate_view", "v": rng.randrange(len(w.views)), "seed": rng.getrandbits(32)}
            return self._write(w, live)
        # allocator-heavy profiles
        if not live or (len(live) < self.sw["max_live"] and r < 0.5):
            return self._alloc(w)
        if r < 0.85 or len(live) >= self.sw["max_live"]:
            return self._free(w, live)
        if r < 0.93:
            return self._grow(w)
        if r < 0.97:
            return self._write(w, live)
        return self._read(w, live)

    def _alloc(self, w):
        rng = self.rng
        b = rng.randrange(len(w.bufs))
        m = w.models[b]
        aligned = rng.random() < 0.6
        al = w.alignment(b, aligned)
        mx = self.sw["max_size"]
        r = rng.random()
        if self.sw.get("large"):
            size = rng.choice([4096, 32768, 65535, 65536, 65536, 65537, 131072, 131072, 131073, 100000, 196608])
            return {"op": "alloc", "buf": b, "size": size, "align": aligned, "fill": rng.getrandbits(31)}
        if r < 0.25 and m.free:
            # exact fill of some free range (first or random)
            s, e = m.free[0] if rng.random() < 0.5 else rng.choice(m.free)
            size = max(0, e - align_up(s, al))
        elif r < 0.33 and m.free:
            s, e = rng.choice(m.free)
            size = max(0, e - align_up(s, al)) + rng.choice([-1, 1])
            size = max(0, size)
        elif r < 0.36:
            size = 0
        elif r < 0.42:
            size = m.capacity + rng.choice([0, 1, -1, al])
            size = max(0, min(size, 6000))
        else:
            size = rng.randint(1, mx)
        if size > self.BIG:
            # whole-range requests are only made while the ranges are small: a request that misses a
            # huge free range by one byte doubles the buffer, and every step compares whole buffers
            # (400-step thorough histories reached gigabytes)
            size = 1 + size % mx
        return {"op": "alloc", "buf": b, "size": int(size), "align": aligned, "fill": rng.getrandbits(31) if rng.random() < self.sw["p_fill"] else None}

    def _free(self, w, live):
        rng = self.rng
        k = rng.choice(live)
        reg = w.regions[k]
        # bias: free neighbours so that ranges merge, then request the merged size
        m = w.models[reg.buf]
        op = {"op": "free", "r": k, "scribble": rng.getrandbits(31) if rng.random() < 0.3 else None}
        if rng.random() < 0.5:
            # predict merged extent from the model
            lo, hi = reg.off, reg.off + reg.size
            for s, e in m.free:
                if e == lo:
                    lo = s
                if s == hi:
                    hi = e
            if hi - lo > reg.size or rng.random() < 0.3:
                al_flag = rng.random() < 0.5
                al = w.alignment(reg.buf, al_flag)
                size = hi - align_up(lo, al)
                if 0 < size <= self.BIG:
                    self.pending.append({"op": "alloc", "buf": reg.buf, "size": int(size), "align": al_flag, "fill": rng.getrandbits(31)})
        return op

    def _grow(self, w):
        rng = self.rng
        b = rng.randrange(len(w.bufs))
        cap = w.models[b].capacity
        # (doubling is only offered while the buffer is small: every step compares whole buffers, and a
        # 400-step thorough history of doublings reached gigabytes)
        big = max(cap, 1) if cap <= (1 << 20) else 4096
        return {"op": "grow", "buf": b, "n": int(rng.choice([0, 1, 7, 8, 64, big, rng.randint(1, 200)]))}

    def _span(self, w, k):
        rng = self.rng
        reg = w.regions[k]
        if reg.size == 0:
            return 0, 0
        r = rng.random()
        if self.sw.get("large") and r < 0.5:
            ln = rng.choice([x for x in (4096, 65535, 65536, 65537, 131072, reg.size) if x <= reg.size])
            sub = rng.choice([0, 0, reg.size - ln])
            return sub, ln
        if r < 0.25:
            return 0, reg.size
        sub = rng.randrange(reg.size)
        ln = rng.randint(0, reg.size - sub)
        if r < 0.5:
            ln = reg.size - sub  # flush against the end
        return sub, ln

    def _write(self, w, live):
        rng = self.rng
        k = rng.choice(live)
        sub, ln = self._span(w, k)
        prim = rng.choice(WRITE_PRIMS)
        op = {"op": "write", "prim": prim, "r": k, "sub": sub, "len": ln, "seed": rng.getrandbits(31)}
        if prim == "from_buffer":
            op["form"] = rng.choice(SRC_FORMS)
            op["dtype"] = rng.choice(DTYPES)
        elif prim in ("from_native_other", "from_xbuffer", "from_native_self"):
            others = [j for j in live if j != k] or [k]
            src = rng.choice(others)
            op["src"] = src
            ssub, sln = self._span(w, src)
            op["ssub"] = ssub
            if self.sw.get("large") and rng.random() < 0.7:
                op["ssub"] = ssub = 0
            op["len"] = min(ln, w.regions[src].size - ssub)
        elif prim == "from_nplike":
            op["dtype"] = rng.choice(DTYPES)
            op["src_dtype"] = op["dtype"] if rng.random() < 0.5 else rng.choice(DTYPES)
            op["layout"] = rng.choice(NP_LAYOUTS)
            if rng.random() < 0.12:
                # the source is a permuted view of the destination itself (x.v = x.v[::-1], m = m.T)
                op["layout"] = rng.choice(["self_rev", "self_T"])
                op["src_dtype"] = op["dtype"]
            elif rng.random() < 0.2:
                op["reuse"] = True  # the previous source array again, changed in place meanwhile
        return op

    def _read(self, w, live):
        rng = self.rng
        k = rng.choice(live)
        sub, ln = self._span(w, k)
        prim = rng.choice(READ_PRIMS)
        op = {"op": "read", "prim": prim, "r": k, "sub": sub, "len": ln, "keep": rng.random() < 0.6}
        if prim in ("to_nplike", "to_nparray"):
            op["dtype"] = rng.choice(DTYPES)
            op["nd"] = rng.choice([1, 1, 2, 3])
        if prim == "copy_to_native":
            op["dpad"] = rng.choice([0, 0, 1, 5])
            op["dtail"] = rng.choice([0, 0, 3])
        return op


class ListSource:
    def __init__(self, ops):
        self.ops = list(ops)
        self.k = 0

    def next(self, w):
        if self.k >= len(self.ops):
            return None
        op = self.ops[self.k]
        self.k += 1
        return op


# ------------------------------------------------------------------------------
# execution + oracles


class BufSim:
    name = "bufsim"
    props = ("C04", "C12", "C13")
    components = {
        "real": ["xobjects.context.XBuffer.allocate/free/grow/get_free/update_from_xbuffer", "xobjects.context_cpu.BufferNumpy (all primitives)", "xobjects.context_cpu.BufferByteArray (all primitives)", "xobjects.context_cpu.ContextCpu"],
        "stub": ["_new_buffer is wrapped to count calls and to raise MemoryError on plan (body otherwise the real one)"],
    }
    expected_probes = {
        "C04": ["exact_fill_of_range", "free_list_empty", "alignment_padding_lost", "growth_with_trailing_free", "growth_without_trailing_free", "alloc_fail_during_allocate", "alloc_fail_during_grow", "zero_size_request"],
        "C12": ["first_fit_skipped_too_small_hole", "exact_fill_of_range", "free_list_empty", "free_into_empty_free_list", "free_merge_left", "free_merge_right", "free_merge_right+left", "free_merge_isolated", "growth_with_trailing_free", "growth_without_trailing_free", "served_without_growth"],
        "C13": ["write_flush_to_region_end", "extracted_copy_mutated", "view_written_through", "view_dropped_after_relocation", "nplike_noncontiguous_refused", "nplike_noncontiguous_accepted"],
    }
    not_claimed = {
        "C04": ["exhaustive small-scope enumeration of histories (tiny scopes are sampled densely, not enumerated)"],
        "C12": ["growth amount (unspecified); placement of zero-size requests"],
        "C13": ["exhaustive enumeration of every (offset,length) pair: dense sampling for capacities <= 32, fraction reported; self-overlapping transfers; mixed buffer kinds under one context"],
    }

    def coverage_extra(self, prop, features):
        spans = [f for f in features if f.startswith("span:")]
        shapes = sum(1 for f in features if f.startswith("shape:"))
        out = {"distinct_states": {"features": len(features), "distinct_free_list_shapes_in_tiny_scopes": shapes, "distinct_(primitive,capacity,offset,length)_for_capacity<=32": len(spans)}}
        if prop == "C13":
            # fraction of the (offset,length) triangle covered per primitive for capacities <= 32
            per = {}
            for f in spans:
                _, prim, cap, off, ln = f.split(":")
                per.setdefault(prim, set()).add((int(cap), int(off), int(ln)))
            total = sum((c + 1) * (c + 2) // 2 for c in range(0, 33))  # every (offset,length) inside every storage length 0..32
            out["span_coverage_fraction_capacity<=32"] = {k: round(len(v) / total, 3) for k, v in sorted(per.items())}
        return out

    def run(self, prop, profile, rng=None, replay=None, tier="quick"):
        res = RunResult()
        res.profile = profile
        if replay is not None:
            world = replay["world"]
            src = ListSource(replay["ops"])
        else:
            world = gen_world(rng, profile)
            if tier == "thorough" and rng.random() < 0.3:
                world["switches"]["steps"] = rng.choice([150, 250, 400])
            src = GenSource(rng, profile, world)
        w = BufWorld(world)
        diverged = False
        ops = []
        res.replay = {"world": world, "ops": ops, "profile": profile}
        while True:
            op = src.next(w)
            if op is None:
                break
            viols = []
            executed = self.step(w, op, res, viols)
            if not executed:
                res.skipped += 1
                continue
            ops.append(op)
            res.steps += 1
            if op["op"] in ("alloc", "free", "grow"):
                if prop in ("C04", "C12"):
                    res.own_ops += 1
            elif prop == "C13":
                res.own_ops += 1
            self.global_checks(w, op, res, viols)
            if diverged:
                viols[:] = [v for v in viols if v.prop != "C12"]
            res.log.append([res.steps, op, [int(x.capacity) for x in w.bufs], [x._ctl.drain() for x in w.bufs], [v.oracle for v in viols]])
            if viols:
                own = [v for v in viols if v.prop == prop]
                if not own and prop in ("C04", "C13") and all(v.prop == "C12" for v in viols):
                    # the allocator left the first-fit specification, but the
                    # C04/C13 oracles depend only on the regions actually handed
                    # out and on the shadow bytes, which stay exact: keep going
                    # with the placement oracles switched off
                    diverged = True
                    res.foreign_seen.add("C12")
                    continue
                res.viols = viols
                res.viol_step = res.steps - 1
                break
        for b in w.bufs:
            for kfault, n in b._ctl.fired.items():
                res.fault(kfault, n)
        return res

    # ---- one step -----------------------------------------------------------------
    def step(self, w, op, res, viols):
        kind = op["op"]
        self.grow_viols = viols  # (_grown reports into the step's list)
        if kind == "alloc":
            if op["buf"] >= len(w.bufs):
                return False
            self.do_alloc(w, op, res, viols)
            return True
        if kind == "free":
            if op["r"] >= len(w.regions) or w.regions[op["r"]] is None:
                return False
            self.do_free(w, op, res, viols)
            return True
        if kind == "grow":
            if op["buf"] >= len(w.bufs):
                return False
            self.do_grow(w, op, res, viols)
            return True
        if kind == "write":
            if op["r"] >= len(w.regions) or w.regions[op["r"]] is None:
                return False
            if "src" in op and (op["src"] >= len(w.regions) or w.regions[op["src"]] is None):
                return False
            self.do_write(w, op, res, viols)
            return True
        if kind == "read":
            if op["r"] >= len(w.regions) or w.regions[op["r"]] is None:
                return False
            self.do_read(w, op, res, viols)
            return True
        if kind == "mutate_extracted":
            if op["x"] >= len(w.extracted):
                return False
            self.do_mutate_extracted(w, op, res, viols)
            return True
        if kind == "mutate_view":
            if op["v"] >= len(w.views):
                return False
            self.do_mutate_view(w, op, res, viols)
            return True
        raise ValueError(f"unknown op {op}")

    # ---- allocator ops ----------------------------------------------------------------
    def _sync_after_growth(self, w, b, res):
        buf, m = w.bufs[b], w.models[b]
        if buf.capacity != m.capacity:
            pass
        return

    def do_alloc(self, w, op, res, viols):
        b, size, aligned = op["buf"], op["size"], op["align"]
        buf, m = w.bufs[b], w.models[b]
        al = w.alignment(b, aligned)
        fit = m.find_fit(size, al) if size > 0 else None
        cap0 = m.capacity
        calls0 = buf._ctl.newbuf_calls
        fired0 = buf._ctl.fired.get("alloc_fail", 0)
        feat = f"alloc:{'fit' if fit else 'nofit'}:{'al' if al > 1 else 'pk'}"
        try:
            off = buf.allocate(size, align=aligned)
        except RecursionError as e:
            viols.append(Viol("C12", "request_did_not_terminate", ["alloc", "RecursionError", _gs(buf)], f"allocate({size}) on capacity {cap0}, grow_step={buf.grow_step}: {e!r}"))
            return
        except MemoryError as e:
            injected = buf._ctl.fired.get("alloc_fail", 0) > fired0
            if not injected:
                viols.append(Viol("C12", "request_raised", ["alloc", exc_sig(e)], repr(e)))
                return
            res.probe("alloc_fail_during_allocate")
            # the request failed: nothing handed out; earlier growth steps of the
            # same request may have succeeded (capacity may only have increased);
            # live data intact is checked globally
            if buf.capacity > cap0:
                self._grown(w, b, int(buf.capacity), res)
            return
        except Exception as e:
            viols.append(Viol("C12", "request_raised", ["alloc", exc_sig(e)], repr(e)))
            return
        off = int(off)
        cap1 = int(buf.capacity)
        # --- C04: bounds, alignment, disjointness
        if off < 0 or off + size > cap1:
            viols.append(Viol("C04", "out_of_bounds", ["alloc"], f"offset {off} size {size} capacity {cap1}"))
        if off % al != 0:
            viols.append(Viol("C04", "misaligned", ["alloc", f"al{al}"], f"offset {off} alignment {al}"))
        hit = m.overlaps_live(off, size)
        if hit is not None:
            viols.append(Viol("C04", "overlap_live", ["alloc"], f"[{off},{off+size}) overlaps live {m.live[hit]}"))
        if cap1 < cap0:
            viols.append(Viol("C12", "capacity_shrank", ["alloc"], f"{cap0}->{cap1}"))
        # --- C12: first fit, growth iff no fit
        if size == 0:
            res.probe("zero_size_request")
            if cap1 > cap0:
                self._grown(w, b, cap1, res)
            h = m.take_zero(off)
        else:
            if fit is not None:
                res.probe("served_without_growth")
                if fit[0] > 0:
                    res.probe("first_fit_skipped_too_small_hole")
                if cap1 != cap0:
                    viols.append(Viol("C12", "grew_although_fit_existed", ["alloc"], f"fit at {fit[1]} for size {size} al {al}; capacity {cap0}->{cap1}"))
                    self._grown(w, b, cap1, res)
                    fit = m.find_fit(size, al)
            else:
                res.probe("growth_needed")
                if cap1 <= cap0:
                    viols.append(Viol("C12", "no_fit_but_no_growth", ["alloc"], f"size {size} al {al} free {m.free} cap {cap0}; got offset {off}"))
                else:
                    if m.free and m.free[-1][1] == cap0:
                        res.probe("growth_with_trailing_free")
                    else:
                        res.probe("growth_without_trailing_free")
                    self._grown(w, b, cap1, res)
                    fit = m.find_fit(size, al)
            if fit is None:
                if not viols:
                    viols.append(Viol("C12", "grown_capacity_cannot_hold_request", ["alloc"], f"size {size} al {al} cap {cap1} free {m.free}"))
                # resynchronise as well as possible: mark as live anyway
                h = m._next
                m._next += 1
                m.live[h] = (off, size)
            else:
                if off != fit[1]:
                    viols.append(Viol("C12", "not_first_fit", ["alloc", "lower" if off < fit[1] else "higher"], f"size {size} al {al}: got {off}, first fit is {fit[1]} (free {m.free})"))
                    h = m._next
                    m._next += 1
                    m.live[h] = (off, size)
                else:
                    s, e = m.free[fit[0]]
                    if fit[1] + size == e:
                        res.probe("exact_fill_of_range")
                    if fit[1] > s:
                        res.probe("alignment_padding_lost")
                    h = m.take(fit[0], fit[1], size)
                    if not m.free:
                        res.probe("free_list_empty")
        w.regions.append(_Region(b, h, off, size, aligned))
        res.features.add(feat)
        # fill with known bytes (ordinary use of a region one owns)
        if op.get("fill") is not None and size > 0 and not viols:
            data = pbytes(op["fill"], size)
            buf.update_from_buffer(off, data)
            w.shadow[b][off : off + size] = data

    def _grown(self, w, b, newcap, res):
        """Storage was replaced by a larger one: old bytes must be intact
        (checked by the global pass against the shadow); new bytes are whatever
        the system put there."""
        m = w.models[b]
        old = m.capacity
        raw = seams.raw_bytes(w.bufs[b])
        # the copy into the fresh storage is asked for all bytes of the old one: the library lets
        # users keep data at offsets of their own choosing (explicit _offset placement, raw writes),
        # so bytes outside the regions the allocator handed out have to arrive too. (Bytes of live
        # regions are left to the global pass, which reports them under the step's own property.)
        sh = w.shadow[b]
        if len(sh) >= old and bytes(raw[:old]) != bytes(sh[:old]):
            live = [(w.regions[k].off, w.regions[k].off + w.regions[k].size) for k in w.live_regions(b)]
            bad = [j for j in range(old) if raw[j] != sh[j] and not any(s <= j < e for s, e in live)]
            if bad:
                self.grow_viols.append(Viol("C13", "bytes_outside_live_regions_lost_in_growth", ["grow", w.bufs[b].kind], f"buffer {b}: capacity {old}->{newcap}; byte {bad[0]} (+{len(bad)-1} more) of the old storage did not arrive in the new one"))
        m.grown_to(newcap)
        w.shadow[b].extend(raw[old:newcap])
        w.epoch[b] += 1
        res.fault("relocate_by_growth")

    def do_free(self, w, op, res, viols):
        reg = w.regions[op["r"]]
        b = reg.buf
        buf, m = w.bufs[b], w.models[b]
        if op.get("scribble") is not None and reg.size > 0:
            data = pbytes(op["scribble"], reg.size)
            buf.update_from_buffer(reg.off, data)
            w.shadow[b][reg.off : reg.off + reg.size] = data
            res.fault("dirty_reuse")
        if not m.free:
            res.probe("free_into_empty_free_list")
        try:
            buf.free(reg.off, reg.size)
        except Exception as e:
            viols.append(Viol("C12", "free_raised", ["free", exc_sig(e), "full" if not m.free else "notfull"], f"free({reg.off},{reg.size}) with free list {m.free}: {e!r}"))
            w.regions[op["r"]] = None
            m.release(reg.h)
            return
        kind = m.release(reg.h)
        res.probe("free_merge_" + kind)
        res.features.add("free:" + kind)
        w.regions[op["r"]] = None

    def do_grow(self, w, op, res, viols):
        b = op["buf"]
        buf, m = w.bufs[b], w.models[b]
        cap0 = m.capacity
        fired0 = buf._ctl.fired.get("alloc_fail", 0)
        try:
            buf.grow(op["n"])
        except MemoryError as e:
            if buf._ctl.fired.get("alloc_fail", 0) > fired0:
                res.probe("alloc_fail_during_grow")
                if buf.capacity != cap0:
                    viols.append(Viol("C04", "failed_growth_changed_capacity", ["alloc_fail"], f"{cap0}->{buf.capacity}"))
                return
            viols.append(Viol("C12", "request_raised", ["grow", exc_sig(e)], repr(e)))
            return
        except Exception as e:
            viols.append(Viol("C12", "request_raised", ["grow", exc_sig(e)], repr(e)))
            return
        cap1 = int(buf.capacity)
        if cap1 != cap0 + op["n"]:
            viols.append(Viol("C12" if cap1 < cap0 else "C04", "grow_wrong_capacity", ["grow"], f"grow({op['n']}): {cap0}->{cap1}"))
        if cap1 >= cap0:
            self._grown(w, b, cap1, res)
        res.features.add("grow")

    # ---- copy primitives ----------------------------------------------------------------
    def _abs(self, w, k, sub, ln):
        reg = w.regions[k]
        sub = min(sub, reg.size)
        ln = max(0, min(ln, reg.size - sub))
        return reg.buf, reg.off + sub, ln

    def do_write(self, w, op, res, viols):
        prim = op["prim"]
        b, off, ln = self._abs(w, op["r"], op["sub"], op["len"])
        buf = w.bufs[b]
        before = [bytes(seams.raw_bytes(x)) for x in w.bufs]
        expected = None  # bytes that must land at [off, off+n)
        may_refuse = False
        feat = f"write:{prim}:{buf.kind}"
        try:
            if prim == "from_buffer":
                form = op["form"]
                data = pbytes(op["seed"], ln)
                if form == "npdata_typed":
                    dt = np.dtype(op["dtype"])
                    n = ln // dt.itemsize
                    data = data[: n * dt.itemsize]
                    srcobj = np.frombuffer(bytearray(data), dtype=dt).data
                elif form.startswith("array_") or form.startswith("ctypes_"):
                    # buffer-protocol sources whose items are wider than a byte and that have no .nbytes
                    import array as _array
                    import ctypes as _ct

                    if form.startswith("array_"):
                        a = _array.array(form[-1])
                        n = ln // a.itemsize
                        data = data[: n * a.itemsize]
                        a.frombytes(data)
                        srcobj = a
                    else:
                        cty = _ct.c_double if form == "ctypes_d" else _ct.c_int32
                        n = ln // _ct.sizeof(cty)
                        data = data[: n * _ct.sizeof(cty)]
                        srcobj = (cty * n).from_buffer_copy(data)
                elif form == "bytes":
                    srcobj = bytes(data)
                elif form == "bytearray":
                    srcobj = bytearray(data)
                elif form == "memoryview":
                    srcobj = memoryview(bytes(data))
                elif form == "npdata_u8":
                    srcobj = np.frombuffer(bytearray(data), dtype="uint8").data
                else:
                    srcobj = np.frombuffer(bytearray(data), dtype="int8").data
                expected = data
                feat += ":" + form
                buf.update_from_buffer(off, srcobj)
            elif prim in ("from_native_self", "from_native_other", "from_xbuffer"):
                sb, soff, sln = self._abs(w, op["src"], op["ssub"], ln)
                ln = min(ln, sln)
                sbuf = w.bufs[sb]
                expected = before[sb][soff : soff + ln]
                if prim == "from_xbuffer":
                    feat += ":same_ctx" if sbuf.context is buf.context else ":other_ctx"
                    feat += ":same_buf" if sb == b else ""
                    if sb == b and _overlap(off, soff, ln):
                        return  # self-overlapping transfer: semantics not prescribed
                    buf.update_from_xbuffer(off, sbuf, soff, ln)
                else:
                    # native storage of this buffer or of another buffer of the same kind
                    if prim == "from_native_self":
                        sb, sbuf = b, buf
                        soff = min(soff, max(0, len(before[b]) - ln))
                        expected = before[b][soff : soff + ln]
                    if sbuf.kind != buf.kind:
                        return
                    if sb == b and _overlap(off, soff, ln):
                        return
                    buf.update_from_native(off, sbuf.buffer, soff, ln)
            elif prim == "from_nplike":
                dt = np.dtype(op["dtype"])
                sdt = np.dtype(op["src_dtype"])
                n = ln // dt.itemsize
                if op["layout"] in ("self_rev", "self_T"):
                    m = int(n**0.5)
                    if op["layout"] == "self_T" and m >= 2:
                        n = m * m
                        val = buf.to_nplike(off, dt, (m, m)).T
                    else:
                        if n < 2:
                            return
                        val = buf.to_nplike(off, dt, (n,))[::-1]
                    contiguous = False
                    res.probe("nplike_source_is_permuted_view_of_destination")
                elif op.get("reuse") and getattr(w, "last_np", None) is not None:
                    # the SAME source object as in the previous write, its content changed in place since
                    val, contiguous = w.last_np
                    if val.size * dt.itemsize > ln or val.size == 0 or not val.flags.writeable:
                        return
                    sdt = val.dtype
                    fresh, _ = _mk_nparray(op["seed"], np.dtype(sdt.name), val.size, "c1d")
                    val[...] = fresh.reshape(val.shape)
                    n = val.size
                    res.probe("nplike_source_object_reused_after_inplace_change")
                else:
                    val, contiguous = _mk_nparray(op["seed"], sdt, n, op["layout"])
                    w.last_np = (val, contiguous)
                feat += f":{op['layout']}:{'conv' if sdt != dt else 'same'}"
                # independent expectation: C-order flattening after conversion
                with np.errstate(all="ignore"):
                    conv = np.ascontiguousarray(val).astype(dt) if val.dtype != dt else np.ascontiguousarray(val)
                expected = conv.tobytes()
                may_refuse = not contiguous
                with np.errstate(all="ignore"):
                    buf.update_from_nplike(off, dt, val)
                if may_refuse:
                    res.probe("nplike_noncontiguous_accepted")
            else:
                raise ValueError(prim)
        except Exception as e:
            after = [bytes(seams.raw_bytes(x)) for x in w.bufs]
            if may_refuse and after == before:
                res.probe("nplike_noncontiguous_refused")
                return
            viols.append(Viol("C13", "primitive_raised", ["write", prim, buf.kind, exc_sig(e)] + ([op.get("form")] if prim == "from_buffer" else []), f"{op}: {e!r}"))
            # keep the shadow in step with whatever happened
            for i, a in enumerate(after):
                w.shadow[i] = bytearray(a)
            return
        res.features.add(feat)
        after = [bytes(seams.raw_bytes(x)) for x in w.bufs]
        n = len(expected)
        for i in range(len(w.bufs)):
            exp_i = before[i]
            if i == b:
                exp_i = exp_i[:off] + expected + exp_i[off + n :]
            if after[i] != exp_i:
                if len(after[i]) != len(exp_i):
                    what = "storage_length_changed"
                    d = f"{len(exp_i)}->{len(after[i])}"
                else:
                    diff = [j for j in range(len(exp_i)) if after[i][j] != exp_i[j]]
                    inside = [j for j in diff if i == b and off <= j < off + n]
                    what = "wrong_bytes_in_target" if inside and len(inside) == len(diff) else "bytes_outside_target_changed"
                    d = f"buffer {i} first diffs at {diff[:6]} target [{off},{off+n})"
                viols.append(Viol("C13", what, ["write", prim, w.bufs[b].kind] + ([op.get("form")] if prim == "from_buffer" else []) + ([op.get("layout")] if prim == "from_nplike" else []), f"{op}: {d}"))
            w.shadow[i] = bytearray(after[i])
        if ln > 0:
            res.probe("write_nonempty")
        reg = w.regions[op["r"]]
        if off + n == reg.off + reg.size and n > 0:
            res.probe("write_flush_to_region_end")
        if w.spec["buffers"][b]["capacity"] <= 32 and len(before[b]) <= 32:
            res.features.add(f"span:{prim}:{len(before[b])}:{off}:{n}")

    def do_read(self, w, op, res, viols):
        prim = op["prim"]
        b, off, ln = self._abs(w, op["r"], op["sub"], op["len"])
        buf = w.bufs[b]
        before = bytes(seams.raw_bytes(buf))
        want = before[off : off + ln]
        feat = f"read:{prim}:{buf.kind}"
        sig = ["read", prim, buf.kind]
        try:
            if prim == "to_bytearray":
                out = buf.to_bytearray(off, ln)
                got = bytes(out)
                if op.get("keep"):
                    w.extracted.append(["bytearray", out, got])
            elif prim == "to_native":
                out = buf.to_native(off, ln)
                got = _native_bytes(out)
                if op.get("keep"):
                    w.extracted.append(["native", out, got])
            elif prim == "copy_to_native":
                dpad, dtail = op.get("dpad", 0), op.get("dtail", 0)
                dest = seams.fresh_native(buf, dpad + ln + dtail)
                d0 = _native_bytes(dest)
                buf.copy_to_native(dest, dpad, off, ln)
                d1 = _native_bytes(dest)
                got = d1[dpad : dpad + ln]
                if d1[:dpad] != d0[:dpad] or d1[dpad + ln :] != d0[dpad + ln :] or len(d1) != len(d0):
                    viols.append(Viol("C13", "dest_bytes_outside_target_changed", sig, f"{op}"))
                if op.get("keep"):
                    w.extracted.append(["native", dest, d1])
            elif prim in ("to_nplike", "to_nparray"):
                dt = np.dtype(op["dtype"])
                n = ln // dt.itemsize
                shape = _mk_shape(n, op.get("nd", 1))
                n = int(np.prod(shape))
                want = before[off : off + n * dt.itemsize]
                arr = getattr(buf, prim)(off, dt, shape)
                got = np.ascontiguousarray(arr).tobytes()
                if tuple(arr.shape) != tuple(shape) or arr.dtype != dt:
                    viols.append(Viol("C13", "view_wrong_shape_or_dtype", sig, f"{op}: {arr.shape} {arr.dtype}"))
                if op.get("keep") and n > 0:
                    w.views.append([b, w.epoch[b], off, dt.str, tuple(shape), arr])
                feat += f":nd{len(shape)}"
            elif prim == "to_pointer_arg":
                out = buf.to_pointer_arg(off, ln)
                got = _native_bytes(out)
            else:
                raise ValueError(prim)
        except Exception as e:
            viols.append(Viol("C13", "primitive_raised", sig + [exc_sig(e)], f"{op}: {e!r}"))
            return
        if got != want:
            viols.append(Viol("C13", "read_wrong_bytes", sig, f"{op}: got {got[:16].hex()} want {want[:16].hex()}"))
        after = bytes(seams.raw_bytes(buf))
        if after != before:
            viols.append(Viol("C13", "read_modified_buffer", sig, f"{op}"))
            w.shadow[b] = bytearray(after)
        res.features.add(feat)
        if w.spec["buffers"][b]["capacity"] <= 32 and len(before) <= 32:
            res.features.add(f"span:{prim}:{len(before)}:{off}:{ln}")

    def do_mutate_extracted(self, w, op, res, viols):
        kind, obj, snap = w.extracted[op["x"]]
        if len(snap) == 0:
            return
        before = [bytes(seams.raw_bytes(x)) for x in w.bufs]
        data = pbytes(op["seed"], len(snap))
        if kind == "bytearray" or isinstance(obj, bytearray):
            obj[:] = data
        else:
            obj[:] = np.frombuffer(data, dtype=obj.dtype)
        w.extracted[op["x"]][2] = bytes(data)
        after = [bytes(seams.raw_bytes(x)) for x in w.bufs]
        if after != before:
            viols.append(Viol("C13", "extracted_copy_aliases_buffer", ["mutate_extracted", kind], f"{op}"))
            for i, a in enumerate(after):
                w.shadow[i] = bytearray(a)
        res.probe("extracted_copy_mutated")

    def do_mutate_view(self, w, op, res, viols):
        b, ep, off, dts, shape, arr = w.views[op["v"]]
        if ep != w.epoch[b]:
            res.probe("view_dropped_after_relocation")
            return
        dt = np.dtype(dts)
        n = int(np.prod(shape))
        data = pbytes(op["seed"], n * dt.itemsize)
        try:
            arr[...] = np.frombuffer(data, dtype=dt).reshape(shape)
        except Exception as e:
            viols.append(Viol("C13", "view_not_writable", ["mutate_view", w.bufs[b].kind, exc_sig(e)], f"{op}: {e!r}"))
            return
        before = bytes(w.shadow[b])
        exp = before[:off] + data + before[off + len(data) :]
        after = bytes(seams.raw_bytes(w.bufs[b]))
        if after != exp:
            viols.append(Viol("C13", "typed_view_does_not_alias", ["mutate_view", w.bufs[b].kind], f"{op}"))
        w.shadow[b] = bytearray(after)
        res.probe("view_written_through")

    # ---- after every step ------------------------------------------------------------
    def global_checks(self, w, op, res, viols):
        kind = op["op"]
        alloc_kind = kind in ("alloc", "free", "grow")
        for b, buf in enumerate(w.bufs):
            m = w.models[b]
            raw = seams.raw_bytes(buf)
            if len(raw) != buf.capacity:
                viols.append(Viol("C04" if alloc_kind else "C13", "storage_length_ne_capacity", [kind, buf.kind], f"len {len(raw)} capacity {buf.capacity}"))
            if buf.capacity != m.capacity and alloc_kind:
                # e.g. growth that the step handler did not account for
                viols.append(Viol("C12", "capacity_changed_unexpectedly", [kind], f"model {m.capacity} system {buf.capacity}"))
                if buf.capacity > m.capacity:
                    self._grown(w, b, int(buf.capacity), res)
            sh = w.shadow[b]
            # live regions keep their data
            for k in w.live_regions(b):
                r = w.regions[k]
                if bytes(raw[r.off : r.off + r.size]) != bytes(sh[r.off : r.off + r.size]):
                    viols.append(Viol("C04" if alloc_kind else "C13", "live_bytes_changed", [kind, buf.kind], f"region {k} [{r.off},{r.off+r.size}) after {op}"))
                    break
            if alloc_kind:
                # free / padding bytes are don't-care: resynchronise them
                w.shadow[b] = bytearray(raw)
                try:
                    gf = int(buf.get_free())
                except Exception as e:
                    viols.append(Viol("C12", "get_free_raised", [kind, exc_sig(e)], repr(e)))
                    gf = None
                want = m.capacity - m.live_total() - m.lost
                if gf is not None and (gf != want or gf != m.free_total()):
                    viols.append(Viol("C12", "free_total_wrong", [kind], f"get_free()={gf}, capacity-live-lost={want}, spec free list {m.free}"))
                res.features.add(("fl", len(m.free), min(len(m.live), 8)).__repr__())
                if w.spec["switches"].get("tiny"):
                    res.features.add("shape:" + repr(m.shape()))
        # extracted copies stay what they were
        for kind_x, obj, snap in w.extracted:
            if _native_bytes(obj) != snap:
                viols.append(Viol("C13", "extracted_copy_changed_with_buffer", [kind, kind_x], f"after {op}"))
                break


def _gs(buf):
    return "grow_step" if buf.grow_step is not None else "no_grow_step"


def _overlap(a, b, n):
    return n > 0 and a < b + n and b < a + n


def _native_bytes(obj):
    if isinstance(obj, (bytes, bytearray, memoryview)):
        return bytes(obj)
    return np.ascontiguousarray(obj).tobytes()


def _mk_shape(n, nd):
    if nd == 1 or n < 2:
        return (n,)
    if nd == 2:
        for d in (2, 3):
            if n % d == 0:
                return (d, n // d)
        return (1, n)
    for d in (2, 3):
        if n % (d * 2) == 0:
            return (d, 2, n // (d * 2))
    return (1, 1, n)


def _mk_nparray(seed, dt, n, layout):
    """Source array with n elements of dtype dt in the given layout.
    Returns (array, is_c_contiguous)."""
    g = np.random.Generator(np.random.PCG64(seed & 0xFFFFFFFF))
    if dt.kind == "f":
        base = g.integers(-100, 100, size=max(n * 2, 1)).astype(dt)
    elif dt.kind == "u":
        base = g.integers(0, 100, size=max(n * 2, 1)).astype(dt)
    else:
        base = g.integers(-100, 100, size=max(n * 2, 1)).astype(dt)
    if layout in ("be1d", "be2d"):
        # same values, non-native byte order (a big-endian file / network source)
        a = base[:n].astype(dt.newbyteorder(">"))
        if layout == "be2d" and n >= 2:
            a = a.reshape(_mk_shape(n, 2))
        return a, True
    if layout == "c1d" or n < 2:
        return base[:n].copy(), True
    if layout == "strided1d":
        return base[: 2 * n : 2], n <= 1
    shape2 = _mk_shape(n, 2)
    if layout == "c2d":
        return base[:n].reshape(shape2).copy(), True
    if layout == "f2d":
        a = np.asfortranarray(base[:n].reshape(shape2))
        return a, bool(a.flags["C_CONTIGUOUS"])
    if layout == "strided2d":
        a = base[: 2 * n].reshape(shape2[0], shape2[1] * 2)[:, ::2]
        return a, bool(a.flags["C_CONTIGUOUS"])
    if layout == "c3d":
        return base[:n].reshape(_mk_shape(n, 3)).copy(), True
    raise ValueError(layout)
