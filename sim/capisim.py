"""Engine C — CApiSim: an ObjSim world whose schema is additionally compiled,
once per world, through the real path  T._gen_kernels() -> ctx.add_kernels ->
sort_classes -> capi.gen_code -> specialize_source -> cffi/gcc.  The generated
C accessors are a third family of readers/writers of the shared storage:

  c_read   sweep an object (or a nested part reached by walking) through
           <T>_get / _getp / _len / _typeid / _member with every in-range
           index tuple; values are compared with the model, addresses with
           the independent decoder's layout map          (C02)
  c_set    one scalar leaf is written through <T>_set...; the whole world is
           then compared with the model changed at exactly that leaf, and the
           byte diff must lie inside the leaf's extent        (C07, first sentence)
  c_call   probe kernels with seeded signatures receive scalars, pointers and
           xobjects; what C saw is compared byte for byte with what Python
           holds now                                            (C17)

All of it is interleaved with the Python-side operations, relocation, growth,
fragmentation and dirty reuse of ObjSim, so the C side always meets objects at
arbitrary offsets of buffers that have moved.
"""
import numpy as np

from .core import Viol, exc_sig
from . import seams, typegen, model as M, objsim
from .objsim import ObjSim, ObjWorld, Step, GenSource, Skip
from .layout import DecodeError, c_indices

xo = seams.xo

_W = dict(construct=22, set_leaf=8, set_compound=4, bind=6, copy=4, drop=3, raw=5, grow=10, misuse=0, restart=3, json=0, c_read=0, c_set=0, c_call=0, c_rebuild=0)
objsim.PROFILES.update(
    {
        "c_readers": dict(w=dict(_W, c_read=38)),
        "c_readers_refs": dict(w=dict(_W, c_read=38, bind=14), force=dict(refs=True, urefs=True)),
        "c_writers": dict(w=dict(_W, c_set=34, c_read=6)),
        "c_calls": dict(w=dict(_W, c_call=40, c_read=2, c_rebuild=2)),
        # C20: restart, then compiled accessors on both sides (restored objects through the rebuilt
        # kernel table of the unpickled context)
        "c_restart": dict(w=dict(_W, restart=14, c_read=16, c_set=14, grow=4)),
    }
)
objsim.OP_PROP.update({"c_read": "C02", "c_set": "C07", "c_call": "C17", "c_rebuild": "C17"})
objsim.OWN_OPS.update({"C02": ("c_read",), "C07": ("c_set",), "C17": ("c_call",)})


# ------------------------------------------------------------------------------
# paths the C API can follow


def c_paths(schema, t, node, maxn=160):
    """(path, type, node) reachable by generated accessors: through fields, array
    items and plain references (non-null), never into a union's member."""
    out = []

    def rec(t, node, path, nref):
        if len(out) >= maxn:
            return
        ty = schema[t]
        k = ty["k"]
        if k != "ref":
            out.append((path, t, node))
        if k == "struct":
            for f in ty["fields"]:
                rec(f[1], node.f[f[0]], path + [f[0]], nref)
        elif k == "array":
            for idx, x in zip(c_indices(node.shape), node.items):
                rec(ty["item"], x, path + [list(idx)], nref)
        elif k == "ref" and node.to is not None and nref < 2:
            rec(ty["to"], node.to, path + ["*"], nref + 1)

    rec(t, node, [], 0)
    return out


def acc_name(tname, action, path, nindex_in_name):
    fields = [el for el in path if isinstance(el, str) and el != "*"]
    nidx = sum(len(el) for el in path if isinstance(el, list))
    name = f"{tname}_{action}"
    if nindex_in_name and nidx > 0:
        name += str(nidx)
    if fields:
        name += "_" + "_".join(fields)
    kw = {}
    i = 0
    for el in path:
        if isinstance(el, list):
            for x in el:
                kw[f"i{i}"] = int(x)
                i += 1
    return name, kw


def lay_key(path):
    return tuple(tuple(el) if isinstance(el, list) else el for el in path)


def base_address(buf):
    return int(np.frombuffer(buf.buffer, dtype="int8").ctypes.data)


# ------------------------------------------------------------------------------


class CWorld(ObjWorld):
    def build_on(self, ctx, kern=None, roots=None, sources=None):
        """The accessor build of this world on `ctx` (the world's own context at start, the
        unpickled context after a restart: its kernel table comes back empty, so a user who goes on
        working with the restored objects has to build again)."""
        c = self.spec["c"]
        if kern is None:
            kern, roots = {}, []
            for t, cls in enumerate(self.classes):
                if self.schema[t]["k"] in ("struct", "array", "uref"):
                    kern.update(cls._gen_kernels())
                    roots.append(cls)
            sources = []
            if c.get("probes"):
                from . import cprobes

                src, pk = cprobes.build(self, c["probes"])
                sources.append(src)
                kern.update(pk)
        old = type(ctx)._compile_kernels_info
        type(ctx)._compile_kernels_info = False
        opt = c.get("opt", "-O0")
        # ("default": the library's own compile and link flags, as a user gets them)
        flags = {} if opt == "default" else dict(extra_compile_args=(opt, "-Wno-unused-function"), extra_link_args=(opt,))
        try:
            ctx.add_kernels(sources=sources, kernels=kern, extra_classes=roots, **flags)
        finally:
            type(ctx)._compile_kernels_info = old

    def compile(self):
        spec = self.spec
        c = spec["c"]
        self.cctx = self.ctxs[c["ctx"] % len(self.ctxs)]
        kern = {}
        roots = []
        for t, cls in enumerate(self.classes):
            if self.schema[t]["k"] in ("struct", "array", "uref"):
                kern.update(cls._gen_kernels())
                roots.append(cls)
        self.n_accessors = len(kern)
        if c.get("decoy"):
            # history of the process: an earlier build, in another context, of same-named types that
            # differ in what the names do not spell out (axis order of N-D arrays). Whatever the
            # library keeps between builds must not leak from one into the other.
            import copy

            dschema = copy.deepcopy(self.schema)
            changed = False
            for ty in dschema:
                if ty["k"] == "array" and len(ty["shape"]) > 1:
                    ty["order"] = list(reversed(ty["order"]))
                    ty["order_decl"] = None
                    changed = True
            if changed:
                dcls = typegen.build_classes(dschema)
                dk, droots = {}, []
                for t, cls in enumerate(dcls):
                    if dschema[t]["k"] in ("struct", "array", "uref"):
                        dk.update(cls._gen_kernels())
                        droots.append(cls)
                old0 = xo.ContextCpu._compile_kernels_info
                xo.ContextCpu._compile_kernels_info = False
                try:
                    xo.ContextCpu().add_kernels(kernels=dk, extra_classes=droots, extra_compile_args=("-O0", "-Wno-unused-function"), extra_link_args=("-O0",))
                finally:
                    xo.ContextCpu._compile_kernels_info = old0
                self.decoy_built = True
        probes = c.get("probes")
        sources = []
        if probes:
            from . import cprobes

            src, pk = cprobes.build(self, probes)
            sources.append(src)
            kern.update(pk)
        self.build_on(self.cctx, kern, roots, sources)
        self.ffi = None
        for k in self.cctx.kernels.values():
            self.ffi = k.ffi_interface
            break


class CGenSource(GenSource):
    def __init__(self, rng, profile, spec):
        super().__init__(rng, profile, spec)
        self.final_done = False

    def next(self, w):
        op = super().next(w)
        if op is None and not self.final_done:
            self.final_done = True
            return {"op": "c_read", "all": True}
        if op is None and self.profile == "c_writers" and not getattr(self, "final_set_done", False):
            self.final_set_done = True
            return {"op": "c_set", "all": True, "seed": self.rng.getrandbits(30)}
        return op

    def _pick_c_target(self, w, want_leaf):
        """(obj, at-prefix, path, type, node): an accessor root (the object itself
        or a nested struct/array reached by walking) and a path below it."""
        rng = self.rng
        live = [o for o in w.live_objs() if w.schema[o.t]["k"] in ("struct", "array")]
        if not live:
            return None
        rng.shuffle(live)
        for o in live[:4]:
            paths = c_paths(w.schema, o.t, o.node)
            at = []
            at_t, at_node = o.t, o.node
            if rng.random() < 0.35:
                roots = [(p, t, n) for p, t, n in paths if p and w.schema[t]["k"] in ("struct", "array")]
                if roots:
                    at, at_t, at_node = rng.choice(roots)
                    paths = c_paths(w.schema, at_t, at_node)
            if not want_leaf:
                return o, at, [], at_t, at_node
            leaves = [(p, t, n) for p, t, n in paths if w.schema[t]["k"] == "sc"]
            if leaves:
                p, t, n = rng.choice(leaves)
                return o, at, p, t, n
        return None

    def restart(self, w):
        # (a context on which OpenMP kernels were built keeps cffi functions and cannot be pickled)
        if any(c.get("omp") for c in w.spec["contexts"]):
            return None
        op = super().restart(w)
        if op is not None and not getattr(self, "rebuilt", False) and self.rng.random() < 0.6:
            # go on working with the restored objects the way a user has to: build the accessors
            # again on the unpickled context and call them through its kernel table
            self.rebuilt = True
            op["rebuild"] = True
        return op

    def c_read(self, w):
        got = self._pick_c_target(w, False)
        if got is None:
            return None
        o, at, _, _, _ = got
        return {"op": "c_read", "obj": o.k, "at": at, "via": self._via(o)}

    def c_set(self, w):
        got = self._pick_c_target(w, True)
        if got is None:
            return None
        o, at, p, t, n = got
        return {"op": "c_set", "obj": o.k, "at": at, "path": p, "value": M.gen_scalar(self.rng, w.schema[t]["t"]), "via": self._via(o)}

    def c_rebuild(self, w):
        from . import cprobes

        if getattr(self, "n_rebuilds", 0) >= 2:
            return None  # (each one compiles)
        op = cprobes.gen_rebuild(self, w)
        if op is not None:
            self.n_rebuilds = getattr(self, "n_rebuilds", 0) + 1
        return op

    def c_call(self, w):
        from . import cprobes

        return cprobes.gen_call(self, w)


class _Abort(Exception):
    """the step cannot go on after a violation it has just recorded"""


class CStep(Step):
    def execute(self):
        try:
            super().execute()
        except _Abort:
            if not self.viols:
                raise

    def viol(self, prop, oracle, sig, detail=""):
        o = getattr(self, "_cur_o", None)
        if o is not None and prop in ("C02", "C07", "C17") and getattr(o.buf, "_sim_restored", False):
            # compiled code applied to an object that came back from the pickled form: what it
            # reads and where it writes is part of "fully usable ... independent of the original"
            prop, sig = "C20", list(sig) + ["restored_object"]
        # the C02 oracles only read (values vs model, addresses vs decoder): under another lens the
        # model stays in step with the system, so the run goes on (same rule as Step.SOFT)
        if prop == "C02" and self.lens != "C02" and oracle.startswith(("c_get", "c_len", "c_typeid", "c_member", "accessor_")):
            self.res.foreign_seen.add("C02")
            return
        super().viol(prop, oracle, sig, detail)

    # -- helpers
    def _root(self, o, at, via):
        start = o.handle() if via == "handle" and o.hnd is not None else o.view()
        return o.walk(at, start)

    def _layout(self, o):
        w = self.w
        lay = []
        raw = seams.raw_bytes(o.buf)
        w.dec.decode(o.t, raw, o.off, o.bufid, lay, None, (), True)
        return {p: (s, e, kd) for p, s, e, kd in lay}

    def _kernel(self, name, o=None):
        w = self.w
        rctx = getattr(w, "rctx", None)
        if rctx is not None and o is not None and o.buf.context is rctx:
            # restored object on the context it came back with: the documented attribute form
            if name not in rctx.kernels:
                return None
            self.res.probe("c_call_through_restored_context")
            try:
                return getattr(rctx.kernels, name)
            except Exception as e:
                self.viol("C20", "kernel_table_of_restored_context_unusable", ["restart", exc_sig(e)], f"ctx.kernels.{name}: {type(e).__name__}: {e}")
                raise _Abort()
        try:
            return w.cctx.kernels[name]
        except KeyError:
            return None

    def op_restart(self):
        super().op_restart()
        w = self.w
        if not self.op.get("rebuild") or self.viols or not getattr(self, "new_restored", False):
            return
        o = w.objs[self.op["id"]]
        ctx = o.buf.context
        try:
            w.build_on(ctx)
        except Exception as e:
            self.viol("C20", "accessor_build_on_restored_context_raised", ["restart", exc_sig(e)], f"{type(e).__name__}: {str(e)[-600:]}")
            return
        w.rctx = ctx
        self.res.fault("rebuild_on_restored_context")

    def _addr(self, ptr):
        return int(self.w.ffi.cast("intptr_t", ptr))

    # -- c_read
    def op_c_read(self):
        w, op = self.w, self.op
        if op.get("all"):
            targets = [(o, [], "handle") for o in w.live_objs() if w.schema[o.t]["k"] in ("struct", "array")]
        else:
            targets = [(self.get_obj(op["obj"]), op.get("at", []), op.get("via", "handle"))]
        n = 0
        for o, at, via in targets:
            if self.viols:
                break
            n += self.sweep(o, at, via)
        self.res.probe("c_accessor_calls", n)

    def sweep(self, o, at, via):
        w = self.w
        schema = w.schema
        try:
            at_t, at_node, _, _ = M.node_at(schema, o.t, o.node, at)
        except Exception:
            raise Skip()
        if at_node is None or schema[at_t]["k"] not in ("struct", "array"):
            raise Skip()
        try:
            lay = self._layout(o)
        except DecodeError:
            return 0  # reported by the decoder oracle of the coherence pass
        root = self._root(o, at, via)
        self._cur_o = o
        tname = schema[at_t]["name"]
        base = base_address(o.buf)
        feat = typegen.features(schema, at_t)
        if at:
            self.res.probe("c_read_on_nested_view")
        if int(root._offset) != 0:
            self.res.probe("c_read_object_at_nonzero_offset")
        ncalls = 0
        for path, t, node in c_paths(schema, at_t, at_node):
            if self.viols:
                break
            k = schema[t]["k"]
            full = lay_key(list(at) + path)
            ext = lay.get(full)
            xref = "xref" if "*" in path else "direct"
            nd = sum(1 for el in path if isinstance(el, list))
            if ext is None:
                continue
            want_addr = base + ext[0]

            def call(action, nindex):
                nonlocal ncalls
                name, kw = acc_name(tname, action, path, nindex)
                ker = self._kernel(name, o)
                if ker is None:
                    self.viol("C02", "accessor_missing", [action, k, feat], f"no generated function {name} for path {path} of {tname}")
                    return None, name
                ncalls += 1
                try:
                    return ker(obj=root, **kw), name
                except Exception as e:
                    self.viol("C02", "accessor_call_raised", [action, k, exc_sig(e)], f"{name}({kw}): {type(e).__name__}: {e}")
                    return None, name

            self.res.features.add(f"c_read:{k}:{xref}:nd{nd}:{'nested' if at else 'top'}")
            if k == "sc":
                ret, name = call("get", False)
                if ret is None:
                    continue
                dt = np.dtype(typegen.SC_DTYPE[schema[t]["t"]])
                if node is not M.UNDEF:
                    got = dt.type(ret).tobytes()
                    if got != node and not (dt.kind == "f" and np.isnan(dt.type(ret)) and np.isnan(np.frombuffer(node, dtype=dt)[0])):
                        self.viol("C02", "c_get_ne_model", ["get", feat, xref, f"nd{nd}"], f"{name} returned {ret!r}, model {np.frombuffer(node, dtype=dt)[0]!r}; object {o.k} path {list(at) + path}")
                        continue
                p, name = call("getp", True)
                if p is None:
                    continue
                if self._addr(p) != want_addr:
                    self.viol("C02", "c_getp_address", ["getp", "sc", feat, xref, f"nd{nd}"], f"{name} -> buffer+{self._addr(p) - base}, documented layout says +{ext[0]}; object {o.k} at {o.off} path {list(at) + path}")
                    continue
                if node is not M.UNDEF and bytes(w.ffi.buffer(p, dt.itemsize)) != node:
                    self.viol("C02", "c_getp_pointee", ["getp", "sc", feat, xref], f"{name}[0] bytes differ from the model")
            elif k in ("str", "struct", "array", "uref"):
                p, name = call("getp", True)
                if p is None:
                    continue
                if self._addr(p) != want_addr:
                    self.viol("C02", "c_getp_address", ["getp", k, feat, xref, f"nd{nd}"], f"{name} -> buffer+{self._addr(p) - base}, documented layout says +{ext[0]}; object {o.k} at {o.off} path {list(at) + path}")
                    continue
                if k == "array":
                    ret, name = call("len", True)
                    if ret is None:
                        continue
                    n = 1
                    for d in node.shape:
                        n *= d
                    if int(ret) != n:
                        self.viol("C02", "c_len_ne_model", ["len", feat, xref, f"nd{nd}"], f"{name} returned {ret}, shape {node.shape}")
                elif k == "uref":
                    ret, name = call("typeid", False)
                    if ret is None:
                        continue
                    want_m = node.m if node.to is not None else -1
                    if int(ret) != want_m:
                        self.viol("C02", "c_typeid_ne_model", ["typeid", feat, xref], f"{name} returned {ret}, member index {want_m}")
                        continue
                    if node.to is not None:
                        p, name = call("member", False)
                        if p is None:
                            continue
                        tgt = lay.get(full + ("*",))
                        if tgt is not None and self._addr(p) != base + tgt[0]:
                            self.viol("C02", "c_member_address", ["member", feat, xref], f"{name} -> buffer+{self._addr(p) - base}, target at +{tgt[0]}")
                        self.res.probe("c_union_member_resolved")
            if "*" in path:
                self.res.probe("c_path_through_reference")
        return ncalls

    # -- c_set
    def c_set_all(self):
        """Every scalar leaf of every live object is written once through its setter."""
        import random

        w, op = self.w, self.op
        schema = w.schema
        r = random.Random(op["seed"])
        n = 0
        for o in [x for x in w.live_objs() if schema[x.t]["k"] in ("struct", "array")]:
            try:
                lay = self._layout(o)
            except DecodeError:
                continue
            root = o.handle()
            tname = schema[o.t]["name"]
            done = set()
            for path, t, node in c_paths(schema, o.t, o.node, maxn=400):
                if schema[t]["k"] != "sc" or n >= 400:
                    continue
                ext = lay.get(lay_key(path))
                if ext is None or ext[0] in done:
                    continue  # (a leaf reachable twice through shared references is set once)
                done.add(ext[0])
                name, kw = acc_name(tname, "set", path, False)
                ker = self._kernel(name, o)
                if ker is None:
                    self.viol("C07", "setter_missing", ["set", typegen.features(schema, o.t)], f"no generated function {name}")
                    return
                v = M.gen_scalar(r, schema[t]["t"])
                self.allowed.append((o.buf, ext[0], ext[1]))
                try:
                    ker(obj=root, value=M.scalar_py(schema[t]["t"], v), **kw)
                except Exception as e:
                    self.viol("C07", "setter_call_raised", ["set", exc_sig(e), typegen.features(schema, o.t)], f"{name}({kw}): {type(e).__name__}: {e}")
                    return
                _, _, parent, key = M.node_at(schema, o.t, o.node, path)
                M.store_at(parent, key, bytes.fromhex(v["x"]))
                n += 1
        self.res.probe("c_set_calls", n)
        self.res.probe("c_set_all_sweeps")

    def op_c_set(self):
        w, op = self.w, self.op
        if op.get("all"):
            return self.c_set_all()
        schema = w.schema
        o = self.get_obj(op["obj"])
        at, path = op.get("at", []), op["path"]
        try:
            at_t, at_node, _, _ = M.node_at(schema, o.t, o.node, at)
            t, node, parent, key = M.node_at(schema, o.t, o.node, list(at) + path)
        except Exception:
            raise Skip()
        if at_node is None or schema[at_t]["k"] not in ("struct", "array") or node is None or parent is None or schema[t]["k"] != "sc":
            raise Skip()
        # the path must be one the accessors can follow (no union member on the way)
        ok = [p for p, _, _ in c_paths(schema, at_t, at_node, maxn=100000) if p == path]
        if not ok:
            raise Skip()
        try:
            lay = self._layout(o)
        except DecodeError:
            raise Skip()
        ext = lay.get(lay_key(list(at) + path))
        if ext is None:
            raise Skip()
        tname = schema[at_t]["name"]
        name, kw = acc_name(tname, "set", path, False)
        feat = typegen.features(schema, at_t)
        self._cur_o = o
        ker = self._kernel(name, o)
        if ker is None:
            self.viol("C07", "setter_missing", ["set", feat], f"no generated function {name}")
            return
        root = self._root(o, at, op.get("via", "handle"))
        # exactly the addressed element may change
        self.allowed.append((o.buf, ext[0], ext[1]))
        val = M.scalar_py(schema[t]["t"], op["value"])
        try:
            ker(obj=root, value=val, **kw)
        except Exception as e:
            self.outcome = "raised:" + exc_sig(e)
            self.viol("C07", "setter_call_raised", ["set", exc_sig(e), feat], f"{name}({kw}, value={val!r}): {type(e).__name__}: {e}")
            return
        M.store_at(parent, key, bytes.fromhex(op["value"]["x"]))
        self.res.features.add(f"c_set:{schema[t]['t']}:{'xref' if '*' in path else 'direct'}:{'nested' if at else 'top'}:{typegen.features(schema, at_t)}")
        self.res.probe("c_set_calls")
        if ext[1] == max((off + size) for (off, size) in o.buf._sim_allocs) if o.buf._sim_allocs else False:
            self.res.probe("c_set_last_byte_of_last_allocation")

    def op_c_rebuild(self):
        from . import cprobes

        cprobes.run_rebuild(self)

    def op_c_call(self):
        from . import cprobes

        cprobes.run_call(self)


class CApiSim(ObjSim):
    name = "capisim"
    world_cls = CWorld
    step_cls = CStep
    source_cls = CGenSource
    components = {
        "real": ObjSim.components["real"] + ["T._gen_kernels / _gen_c_api / _gen_c_decl (capi.py generators)", "xobjects.context.sort_classes, sources_from_classes", "specialize_source (cpu_serial / cpu_openmp)", "ContextCpu.add_kernels / build_kernels / compile_kernel (cffi + gcc)", "KernelCpu.__call__ / to_function_arg"],
        "stub": ObjSim.components["stub"] + ["compilation happens in a per-process scratch directory; -O0 in most worlds, -O3 in a seeded tenth"],
    }
    not_claimed = {
        "C02": ["the symbolic 'for all indices and all header words at once' reading: all in-range indices of every sampled object are executed, address expressions are not compared symbolically", "paths into union members (the generated API stops at the union)"],
        "C07": ["undefined behaviour on paths that are not executed"],
        "C17": ["GPU contexts"],
    }
    needs_scratch = True

    def run(self, prop, profile, rng=None, replay=None, tier="quick"):
        if profile == "sanitize":
            # second sentence of C07: stand-alone sanitizer build of the emitted source (sim/accsim.py)
            from .accsim import AccSim

            return AccSim().run(prop, profile, rng=rng, replay=replay, tier=tier)
        return super().run(prop, profile, rng=rng, replay=replay, tier=tier)

    def gen_world(self, rng, profile, tier):
        spec = objsim.gen_world(rng, profile, tier, no_twins=True)
        omps = [rng.choice([0, 0, 0, 2, "auto"]) if profile != "c_restart" else 0 for _ in spec["contexts"]]
        for c, o in zip(spec["contexts"], omps):
            c["omp"] = o
        spec["c"] = {"ctx": rng.randrange(len(spec["contexts"])), "opt": rng.choices(["-O0", "-O3", "default"], weights=[84, 8, 8])[0], "decoy": rng.random() < 0.3}
        if profile == "c_calls":
            from . import cprobes

            spec["c"]["probes"] = cprobes.gen_probes(rng, spec)
        return spec

    def make_world(self, spec, res):
        w = CWorld(spec)
        try:
            w.compile()
        except Exception as e:
            res.viols = [Viol("C14", "accessor_build_failed", [exc_sig(e)], f"{type(e).__name__}: {str(e)[-1500:]}")]
            res.viol_step = 0
            return None
        res.probe("accessors_compiled", w.n_accessors)
        if getattr(w, "decoy_built", False):
            res.fault("earlier_build_of_same_named_types")
        return w
