"""Cold restart (C20): the pickled form of a group of handles is loaded in a
*fresh interpreter* in which nothing of the original process survives — no
handle, no buffer, no class object, no module- or class-level state of the
library.  Only the durable form (the pickle bytes) and the type declarations
(the schema, from which the child declares the classes again through the same
public forms) cross the process boundary.

Parent side:  cold_read(schema, data, hybrid) -> report (dict) or raises ColdError
Child side :  python tools/cold_load.py   (stdin: one JSON line; stdout: one JSON line)

The child reads every restored object completely (the same reader the in-process
oracles use), reports which restored handles share a buffer, where a fresh
allocation in each restored buffer lands and whether a write through the
restored handle is read back; the parent compares all of it with the model.
"""
import os
import sys
import json
import base64
import subprocess

from .core import VERIF_DIR

CHILD = os.path.join(VERIF_DIR, "tools", "cold_load.py")


class ColdError(Exception):
    pass


def jsonable(x):
    if isinstance(x, (tuple, list)):
        return [jsonable(y) for y in x]
    if isinstance(x, (str, int, float, bool)) or x is None:
        return x
    return repr(x)


def same_j(a, b):
    """Equality of two jsonable snapshots where ["undef"] matches any scalar."""
    if a == b:
        return True
    if isinstance(a, list) and isinstance(b, list):
        if a and a[0] == "undef":
            return bool(b) and b[0] in ("sc", "undef")
        if b and b[0] == "undef":
            return bool(a) and a[0] in ("sc", "undef")
        return len(a) == len(b) and all(same_j(x, y) for x, y in zip(a, b))
    return False


def first_diff_j(a, b, path=""):
    if same_j(a, b):
        return None
    if isinstance(a, list) and isinstance(b, list) and a and b and a[0] == b[0] and len(a) == len(b):
        for i, (x, y) in enumerate(zip(a, b)):
            d = first_diff_j(x, y, f"{path}/{i}")
            if d:
                return d
    return f"{path}: {str(a)[:70]} vs {str(b)[:70]}"


def cold_read(schema, data, types, repo, timeout=120):
    """Run the child.  `types` = schema index of every pickled handle, in order."""
    req = {"schema": schema, "types": types, "data": base64.b64encode(data).decode(), "repo": repo}
    env = dict(os.environ, PYTHONHASHSEED="0", PYTHONDONTWRITEBYTECODE="1", VERIF_REPO=repo)
    try:
        p = subprocess.run([sys.executable, CHILD], input=json.dumps(req) + "\n", capture_output=True, text=True, env=env, timeout=timeout, cwd=VERIF_DIR)
    except subprocess.TimeoutExpired:
        raise ColdError("child timed out")
    lines = [l for l in p.stdout.splitlines() if l.startswith("COLD ")]
    if not lines:
        raise ColdError(f"child exit {p.returncode}: {p.stderr[-600:]}")
    return json.loads(lines[-1][5:])


# ------------------------------------------------------------------------------
# child


class _W:
    pass


def child_main():
    req = json.loads(sys.stdin.readline())
    import types as _types
    import pickle

    typereg = sys.modules.setdefault("sim_typereg", _types.ModuleType("sim_typereg"))
    from . import typegen, seams  # noqa: F401  (seams: the buffer classes named in the pickle)
    from .core import exc_sig

    out = {"phase": "declare"}
    try:
        hybrids = {}
        classes = typegen.build_classes(req["schema"], module=typereg, hybrids=hybrids)
        out["phase"] = "load"
        try:
            new = pickle.loads(base64.b64decode(req["data"]))
        except Exception as e:
            out["load_raised"] = exc_sig(e)
            out["load_msg"] = f"{type(e).__name__}: {e}"[:300]
            print("COLD " + json.dumps(out))
            return 0
        out["phase"] = "read"
        from . import objsim

        w = _W()
        w.schema = req["schema"]
        w.classes = classes
        w.cls_index = {id(c): i for i, c in enumerate(classes)}
        bufs = []
        for h in new:
            x = getattr(h, "_xobject", h)
            if not any(x._buffer is b for b in bufs):
                bufs.append(x._buffer)
        for i, b in enumerate(bufs):
            b._ctl.bid = -1 - i
            b._ctl.armed = False
        out["bufidx"] = []
        out["offsets"] = []
        out["reads"] = []
        out["dressed"] = []
        for h, t in zip(new, req["types"]):
            x = getattr(h, "_xobject", h)
            out["dressed"].append(x is not h)
            out["bufidx"].append([i for i, b in enumerate(bufs) if b is x._buffer][0])
            out["offsets"].append(int(x._offset))
            try:
                out["reads"].append(jsonable(objsim.read_handle(w, t, x, nplike=True)))
            except Exception as e:
                out["reads"].append(["raised", exc_sig(e), f"{type(e).__name__}: {e}"[:200]])
        out["phase"] = "use"
        # the restored buffers must be usable allocators: a fresh allocation must come back in bounds
        out["alloc"] = []
        out["capacity"] = []
        for b in bufs:
            try:
                off = int(b.allocate(8))
                out["alloc"].append(off)
            except Exception as e:
                out["alloc"].append(["raised", exc_sig(e)])
            out["capacity"].append(int(b.capacity))
        # ... and the objects must read the same after that allocation (which may have grown the buffer)
        out["reads_after_alloc"] = []
        for h, t in zip(new, req["types"]):
            x = getattr(h, "_xobject", h)
            try:
                out["reads_after_alloc"].append(jsonable(objsim.read_handle(w, t, x, nplike=False)))
            except Exception as e:
                out["reads_after_alloc"].append(["raised", exc_sig(e), f"{type(e).__name__}: {e}"[:200]])
        out["phase"] = "done"
    except Exception as e:
        import traceback

        out["harness_error"] = traceback.format_exc()[-1500:]
    print("COLD " + json.dumps(out))
    return 0
