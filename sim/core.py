"""Simulator core: PRNG discipline, run results, fork pool, ddmin, replay
files, known findings, evidence.  Engine-agnostic.

One integer decides everything: run i of (property P, engine E) draws every
choice from random.Random(f"{VERIF_SEED}/{P}/{E}/{i}") and from nowhere else.
Logging / digesting / oracles / shrinking never draw from it and never read a
clock.
"""
import os
import sys
import json
import time
import errno
import random
import signal
import hashlib
import selectors
import traceback
import faulthandler

VERIF_DIR = os.path.dirname(os.path.dirname(os.path.abspath(__file__)))
REPO = os.environ.get("VERIF_REPO", "/repo")
FORMAT = 1


def setup_repo_path():
    """Make `import xobjects` resolve to the working tree under test."""
    if not sys.path or sys.path[0] != REPO:
        sys.path.insert(0, REPO)


_SCRATCH = None


def enter_scratch():
    """chdir into a per-process-tree scratch directory outside /repo and /verif
    (generated C is compiled in the current directory by ContextCpu); it is
    removed when the top-level process exits.  Forked workers inherit it."""
    global _SCRATCH
    if _SCRATCH is None:
        import atexit
        import shutil
        import tempfile

        global _SCRATCH_OWNER
        _SCRATCH = tempfile.mkdtemp(prefix="xoverif_", dir=os.environ.get("VERIF_SCRATCH", "/tmp"))
        _SCRATCH_OWNER = os.getpid()
        atexit.register(leave_scratch)
        os.chdir(_SCRATCH)
    return _SCRATCH


_SCRATCH_OWNER = None


def leave_scratch():
    """Remove the scratch directory if this process created it (also called by pool children
    before os._exit, which skips atexit: an engine first used inside a child owns its directory)."""
    global _SCRATCH
    if _SCRATCH is not None and os.getpid() == _SCRATCH_OWNER:
        import shutil

        try:
            os.chdir("/")
        except OSError:
            pass
        shutil.rmtree(_SCRATCH, ignore_errors=True)
        _SCRATCH = None


def run_rng(seed, prop, engine, index):
    # str seeds go through sha512 (seed version 2): independent of PYTHONHASHSEED
    return random.Random(f"{seed}/{prop}/{engine}/{index}")


def canon(obj):
    return json.dumps(obj, sort_keys=True, separators=(",", ":"), default=_json_default)


def _json_default(o):
    import numpy as np

    if isinstance(o, (np.integer,)):
        return int(o)
    if isinstance(o, (np.floating,)):
        return float(o)
    if isinstance(o, (bytes, bytearray)):
        return bytes(o).hex()
    if isinstance(o, (set, frozenset)):
        return sorted(o)
    if isinstance(o, tuple):
        return list(o)
    raise TypeError(f"not JSON-able: {type(o)}")


def digest_of(log):
    return hashlib.sha256(canon(log).encode()).hexdigest()


def exc_sig(exc):
    """Exception class + innermost frame inside the code under test."""
    tb = exc.__traceback__
    inner = None
    while tb is not None:
        fn = tb.tb_frame.f_code.co_filename
        if os.sep + "xobjects" + os.sep in fn and "/verif/" not in fn:
            inner = f"{os.path.basename(fn)}:{tb.tb_frame.f_code.co_name}"
        tb = tb.tb_next
    return f"{type(exc).__name__}@{inner}"


class Viol:
    """One tripped oracle."""

    __slots__ = ("prop", "oracle", "sig", "detail")

    def __init__(self, prop, oracle, sig, detail=""):
        self.prop = prop
        self.oracle = oracle
        self.sig = sig  # canonical feature tuple (list of str)
        self.detail = detail

    def key(self):
        return canon([self.prop, self.oracle, self.sig])

    def to_json(self):
        return {
            "property": self.prop,
            "oracle": self.oracle,
            "signature": self.sig,
            "detail": str(self.detail)[:2000],
        }


class RunResult:
    def __init__(self):
        self.index = None
        self.profile = None
        self.steps = 0
        self.log = []  # event log (digested)
        self.viols = []  # list[Viol] at the first tripping step
        self.viol_step = None
        self.faults = {}  # kind -> fired count
        self.probes = {}  # name -> hit count
        self.features = set()  # distinct-state measure
        self.own_ops = 0  # ops of the property's own kind
        self.replay = None  # {world, ops, ...}
        self.error = None  # harness error text
        self.skipped = 0  # ops skipped in replay (operands gone)
        self.observations = []  # outside-quantifier notes
        self.foreign_seen = set()  # foreign divergences the run could soundly continue past

    def fault(self, kind, n=1):
        self.faults[kind] = self.faults.get(kind, 0) + n

    def probe(self, name, n=1):
        self.probes[name] = self.probes.get(name, 0) + n

    def to_wire(self, prop, want_replay):
        own = [v for v in self.viols if v.prop == prop]
        foreign = sorted({v.prop for v in self.viols if v.prop != prop} | (self.foreign_seen if not own else set()))
        d = {
            "i": self.index,
            "profile": self.profile,
            "steps": self.steps,
            "digest": digest_of(self.log),
            "faults": self.faults,
            "probes": self.probes,
            "features": sorted(self.features),
            "own_ops": self.own_ops,
            "viol": [v.to_json() for v in own],
            "all_viol": [v.to_json() for v in self.viols],
            "foreign": foreign if not own else [],
            "viol_step": self.viol_step,
            "error": self.error,
            "obs": self.observations[:5],
        }
        if want_replay or own or self.error:
            d["replay"] = self.replay
        return d


# ----------------------------------------------------------------------------
# fork-per-slice pool


def _child_main(wfd, fn, indices, per_run_timeout):
    out = os.fdopen(wfd, "w", buffering=1)
    faulthandler.enable()

    class _Timeout(BaseException):  # (not an Exception: no catch-all of the harness or the library may turn it into a verdict)
        pass

    def on_alarm(signum, frame):
        raise _Timeout()

    signal.signal(signal.SIGALRM, on_alarm)
    for i in indices:
        signal.alarm(per_run_timeout)
        try:
            d = fn(i)
        except _Timeout:
            d = {"i": i, "error": f"run timeout >{per_run_timeout}s", "hang": True}
        except BaseException as e:  # harness error, classified apart
            d = {
                "i": i,
                "error": "harness exception: "
                + "".join(traceback.format_exception(type(e), e, e.__traceback__))[-3000:],
            }
        finally:
            signal.alarm(0)
        out.write(canon(d) + "\n")
    out.flush()
    out.close()


def pool_run(fn, index_iter, workers, slice_size, deadline, per_run_timeout=60, slice_timeout=None):
    """Run fn(i) for indices from index_iter in forked children.

    Yields result dicts as they arrive.  `deadline` is a wall-clock time after
    which no new slice is started.  Children that overrun are killed and
    reported as errors (never as passes).
    """
    sel = selectors.DefaultSelector()
    live = {}  # fd -> (pid, buf, started, indices, seen)
    it = iter(index_iter)
    exhausted = False
    if slice_timeout is None:
        slice_timeout = per_run_timeout * 3 + 60

    def spawn():
        nonlocal exhausted
        idx = []
        for _ in range(slice_size):
            try:
                idx.append(next(it))
            except StopIteration:
                exhausted = True
                break
        if not idx:
            return False
        r, w = os.pipe()
        sys.stdout.flush()
        sys.stderr.flush()
        pid = os.fork()
        if pid == 0:
            code = 0
            try:
                os.close(r)
                for fd in list(live):
                    try:
                        os.close(fd)
                    except OSError:
                        pass
                _child_main(w, fn, idx, per_run_timeout)
            except BaseException:
                traceback.print_exc()
                code = 3
            finally:
                try:
                    leave_scratch()
                finally:
                    os._exit(code)
        os.close(w)
        os.set_blocking(r, False)
        sel.register(r, selectors.EVENT_READ)
        live[r] = [pid, b"", time.time(), idx, set()]
        return True

    while True:
        while len(live) < workers and not exhausted and time.time() < deadline:
            if not spawn():
                break
        if not live:
            break
        events = sel.select(timeout=1.0)
        now = time.time()
        for key, _ in events:
            fd = key.fd
            ent = live[fd]
            try:
                chunk = os.read(fd, 1 << 16)
            except BlockingIOError:
                continue
            except OSError as e:
                if e.errno == errno.EINTR:
                    continue
                chunk = b""
            if chunk:
                ent[1] += chunk
                while b"\n" in ent[1]:
                    line, ent[1] = ent[1].split(b"\n", 1)
                    if line.strip():
                        d = json.loads(line)
                        ent[4].add(d.get("i"))
                        yield d
            else:
                sel.unregister(fd)
                os.close(fd)
                pid = ent[0]
                _, status = os.waitpid(pid, 0)
                missing = [i for i in ent[3] if i not in ent[4]]
                if missing:
                    yield {
                        "i": missing[0],
                        "error": f"worker died (status {status}) before finishing runs {missing[:5]}",
                        "crash": True,
                    }
                del live[fd]
        for fd, ent in list(live.items()):
            if now - ent[2] > slice_timeout * max(1, len(ent[3]) // 50 + 1):
                try:
                    os.kill(ent[0], signal.SIGKILL)
                except OSError:
                    pass
                # EOF will be seen on the pipe and handled above


# ----------------------------------------------------------------------------
# ddmin


def ddmin(ops, test, budget_s):
    """Classic delta debugging over a list; `test(sub)` -> True if still fails."""
    t0 = time.time()
    n = 2
    ops = list(ops)
    while len(ops) >= 2 and time.time() - t0 < budget_s:
        chunk = max(1, len(ops) // n)
        reduced = False
        start = 0
        while start < len(ops):
            if time.time() - t0 > budget_s:
                break
            cand = ops[:start] + ops[start + chunk :]
            if cand != ops and test(cand):
                ops = cand
                n = max(n - 1, 2)
                reduced = True
            else:
                start += chunk
        if not reduced:
            if chunk == 1:
                break
            n = min(len(ops), n * 2)
    return ops


# ----------------------------------------------------------------------------
# known findings


def load_known():
    path = os.path.join(VERIF_DIR, "known_findings.json")
    if not os.path.exists(path):
        return {"findings": [], "fixed": []}
    with open(path) as f:
        return json.load(f)


_QUAR = None


def quarantined(name):
    """Generator predicate: is this region kept out of random exploration
    because a recorded known finding lives there?  (The stored replay of the
    finding is still executed on every run.)"""
    global _QUAR
    if os.environ.get("VERIF_NO_QUARANTINE"):
        return False
    if _QUAR is None:
        _QUAR = set()
        for f in load_known().get("findings", []):
            _QUAR.update(f.get("quarantine", []))
    return name in _QUAR


# ----------------------------------------------------------------------------
# evidence


def write_evidence(prop, tier, seed, coverage, wall_s, violations, assumptions):
    evdir = os.environ.get("VERIF_EVIDENCE_DIR", os.path.join(VERIF_DIR, "evidence"))
    os.makedirs(evdir, exist_ok=True)
    ev = {
        "property_id": prop,
        "tier": tier,
        "seed": int(seed),
        "level": "exploration",
        "coverage": coverage,
        "assumptions": assumptions,
        "wall_s": round(wall_s, 2),
        "violations": int(violations),
    }
    path = os.path.join(evdir, f"{prop}.json")
    tmp = path + ".tmp"
    with open(tmp, "w") as f:
        json.dump(ev, f, indent=1, sort_keys=True, default=_json_default)
    os.replace(tmp, path)
    return path
