"""Probe kernels for C17: seeded signatures over {10 scalar types by value,
pointer-to-scalar (const or not), struct / array / union xobjects} and a scalar
return.  Each kernel copies what it received into an out-array (scalars as-is,
the first k elements behind pointers, an object's address and first bytes), so
the harness can compare byte for byte with what Python holds *now*.  Non-const
pointers are also written through (first byte of the first element is xor-ed),
which must be visible on the Python side: a pointer to a temporary copy fails.
"""
import numpy as np

from .core import exc_sig
from . import seams, typegen, model as M
from .layout import DecodeError

xo = seams.xo

CT = {"Float64": "double", "Float32": "float", "Int64": "int64_t", "UInt64": "uint64_t", "Int32": "int32_t", "UInt32": "uint32_t", "Int16": "int16_t", "UInt16": "uint16_t", "Int8": "int8_t", "UInt8": "uint8_t"}
XOR = 0x5A


def gen_probes(rng, spec):
    schema = spec["schema"]
    comp = [i for i, ty in enumerate(schema) if ty["k"] in ("struct", "array")]
    urefs = [i for i, ty in enumerate(schema) if ty["k"] == "uref"]
    sc_in_arrays = sorted({schema[ty["item"]]["t"] for ty in schema if ty["k"] == "array" and schema[ty["item"]]["k"] == "sc"})
    return [_gen_one(rng, comp, urefs, sc_in_arrays, f"pk{j}") for j in range(rng.randint(4, 9))]


def _gen_one(rng, comp, urefs, sc_in_arrays, name):
    args = []
    for _ in range(rng.randint(1, 5)):
        r = rng.random()
        if r < 0.45:
            args.append({"kind": "sc", "t": rng.choice(typegen.SCALARS)})
        elif r < 0.75:
            t = rng.choice(sc_in_arrays) if sc_in_arrays and rng.random() < 0.6 else rng.choice(typegen.SCALARS)
            args.append({"kind": "ptr", "t": t, "const": rng.random() < 0.5, "k": rng.choice([1, 1, 2, 3])})
        elif comp:
            if urefs and rng.random() < 0.15:
                args.append({"kind": "obj", "type": rng.choice(urefs)})
            else:
                args.append({"kind": "obj", "type": rng.choice(comp[-6:])})
        else:
            args.append({"kind": "sc", "t": rng.choice(typegen.SCALARS)})
    rt = rng.choice(typegen.SCALARS + [None])
    ret = None
    if rt is not None:
        same = [i for i, a in enumerate(args) if a["kind"] == "sc" and a["t"] == rt]
        if same and rng.random() < 0.6:
            ret = {"t": rt, "arg": rng.choice(same)}
        else:
            ret = {"t": rt, "const": M.gen_scalar(rng, rt)["x"]}
    p = {"name": name, "args": args, "ret": ret}
    ints = [i for i, a in enumerate(args) if a["kind"] == "sc" and a["t"] in ("Int32", "Int64", "UInt32")]
    if ints and rng.random() < 0.3:
        # the description names one of the integer arguments as the number of work-items (what GPU
        # contexts use for the launch size; a CPU kernel is an ordinary function and runs whatever it says)
        p["nthr"] = rng.choice(ints)
    return p


def cur_probes(w):
    """The probe definitions in force (a c_rebuild re-registers a name with a new definition)."""
    now = getattr(w, "probes_now", None)
    if now is None:
        now = w.probes_now = [dict(p) for p in (w.spec["c"].get("probes") or [])]
    return now


def gen_rebuild(gs, w):
    """A kernel name that is already registered (and mostly already called) is registered again
    with another signature and body: `add_kernels` a second time on the same context."""
    rng = gs.rng
    probes = cur_probes(w)
    if not probes:
        return None
    schema = w.schema
    comp = [i for i, ty in enumerate(schema) if ty["k"] in ("struct", "array")]
    urefs = [i for i, ty in enumerate(schema) if ty["k"] == "uref"]
    sc_in_arrays = sorted({schema[ty["item"]]["t"] for ty in schema if ty["k"] == "array" and schema[ty["item"]]["k"] == "sc"})
    pi = rng.randrange(len(probes))
    return {"op": "c_rebuild", "probe": pi, "def": _gen_one(rng, comp, urefs, sc_in_arrays, probes[pi]["name"])}


def run_rebuild(step):
    from .objsim import Skip

    w, op, res = step.w, step.op, step.res
    probes = cur_probes(w)
    if op["probe"] >= len(probes) or probes[op["probe"]]["name"] != op["def"]["name"]:
        raise Skip()
    src, pk = build(w, [op["def"]])
    ctx = w.cctx
    old = type(ctx)._compile_kernels_info
    type(ctx)._compile_kernels_info = False
    try:
        ctx.add_kernels(sources=[src], kernels=pk, extra_compile_args=("-O0", "-Wno-unused-function"), extra_link_args=("-O0",))
    except Exception as e:
        step.outcome = "raised:" + exc_sig(e)
        step.viol("C14", "accessor_build_failed", ["rebuild", exc_sig(e)], f"{type(e).__name__}: {str(e)[-800:]}")
        return
    finally:
        type(ctx)._compile_kernels_info = old
    probes[op["probe"]] = op["def"]
    res.fault("kernel_name_registered_again")


def _lit(t, hexv):
    dt = np.dtype(typegen.SC_DTYPE[t])
    # exact literal: reinterpret the bytes inside C (no decimal round trip)
    u = int.from_bytes(bytes.fromhex(hexv), "little")
    return dt.itemsize, u


def obj_nbytes(dec, schema, t):
    """How many leading bytes of an object of type t certainly exist."""
    if schema[t]["k"] == "uref":
        return 16
    if dec.dynamic(t):
        return 8
    return min(16, dec.static_size(t))


def build(world, probes):
    schema = world.schema
    src = ["#include <string.h>", "#include <stdint.h>"]
    kernels = {}
    for p in probes:
        cargs = []
        kargs = []
        body = ["  char* o_ = (char*) out; int64_t pos_ = 0;"]
        tail = []  # writes through non-const pointers happen after everything was recorded
        for i, a in enumerate(p["args"]):
            nm = f"a{i}"
            if a["kind"] == "sc":
                cargs.append(f"{CT[a['t']]} {nm}")
                kargs.append(xo.Arg(getattr(xo, a["t"]), name=nm))
                body.append(f"  memcpy(o_+pos_, &{nm}, sizeof({nm})); pos_ += 8;")
            elif a["kind"] == "ptr":
                cargs.append(f"{'const ' if a['const'] else ''}{CT[a['t']]}* {nm}")
                kargs.append(xo.Arg(getattr(xo, a["t"]), pointer=True, const=a["const"], name=nm))
                sz = typegen.SC_SIZE[a["t"]]
                body.append(f"  memcpy(o_+pos_, {nm}, {a['k'] * sz}); pos_ += {(a['k'] * sz + 7) // 8 * 8};")
                if not a["const"]:
                    tail.append(f"  ((unsigned char*){nm})[0] ^= {XOR};")
            else:
                cls = world.classes[a["type"]]
                cargs.append(f"{cls._c_type} {nm}")
                kargs.append(xo.Arg(cls, name=nm))
                nb = obj_nbytes(world.dec, schema, a["type"])
                body.append(f"  {{ int64_t ad_ = (int64_t)(intptr_t){nm}; memcpy(o_+pos_, &ad_, 8); pos_ += 8; }}")
                if nb:
                    body.append(f"  memcpy(o_+pos_, (char*){nm}, {nb}); pos_ += {(nb + 7) // 8 * 8};")
        cargs.append("uint8_t* out")
        kargs.append(xo.Arg(xo.UInt8, pointer=True, name="out"))
        body.extend(tail)
        ret = p["ret"]
        if ret is None:
            rdecl = "void"
            kret = None
        else:
            rdecl = CT[ret["t"]]
            kret = xo.Arg(getattr(xo, ret["t"]))
            if "arg" in ret:
                body.append(f"  return a{ret['arg']};")
            else:
                n, u = _lit(ret["t"], ret["const"])
                ut = {1: "uint8_t", 2: "uint16_t", 4: "uint32_t", 8: "uint64_t"}[n]
                body.append(f"  {{ {ut} u_ = {u}ULL; {rdecl} r_; memcpy(&r_, &u_, {n}); return r_; }}")
        src.append(f"{rdecl} {p['name']}({', '.join(cargs)}){{\n" + "\n".join(body) + "\n}")
        extra = {"n_threads": f"a{p['nthr']}"} if p.get("nthr") is not None else {}
        kernels[p["name"]] = xo.Kernel(args=kargs, ret=kret, c_name=p["name"], **extra)
    return "\n".join(src), kernels


# ------------------------------------------------------------------------------
# generation of calls


def _scalar_arrays(w, tname, k):
    """(obj, path) of live xobject arrays whose items are scalars of type tname, >= k items."""
    out = []
    for o in w.live_objs():
        if w.schema[o.t]["k"] not in ("struct", "array"):
            continue
        for p, t, n in M.enum_paths(w.schema, o.t, o.node, maxn=120, through_refs=True):
            ty = w.schema[t]
            if ty["k"] == "array" and n is not None and w.schema[ty["item"]]["k"] == "sc" and (tname is None or w.schema[ty["item"]]["t"] == tname) and len(n.items) >= k:
                out.append((o, p))
    return out


def _objs_of(w, t):
    """(obj, at) handles of type t: top-level objects and nested parts."""
    out = []
    for o in w.live_objs():
        if o.t == t:
            out.append((o, []))
        if w.schema[o.t]["k"] in ("struct", "array"):
            for p, t2, n in M.enum_paths(w.schema, o.t, o.node, maxn=80, through_refs=True):
                if p and t2 == t and n is not None and p[-1] != "*":
                    out.append((o, p))
    return out


def gen_call(gs, w):
    rng = gs.rng
    probes = cur_probes(w)
    if not probes:
        return None
    order = list(range(len(probes)))
    rng.shuffle(order)
    for pi in order:
        p = probes[pi]
        vals = []
        ok = True
        for a in p["args"]:
            if a["kind"] == "sc":
                vals.append({"v": M.gen_scalar(rng, a["t"]), "form": rng.choice(["py", "py", "np", "np64"])})
            elif a["kind"] == "ptr":
                cands = _scalar_arrays(w, a["t"], a["k"])
                if cands and rng.random() < 0.55:
                    o, path = rng.choice(cands)
                    vals.append({"xarr": [o.k, path]})
                else:
                    n = a["k"] + rng.choice([0, 1, 5])
                    start = rng.choice([0, 0, 1, 3])
                    step = rng.choice([1, 1, 2])
                    total = start + n * step + rng.choice([0, 2])
                    hexd = b"".join(bytes.fromhex(M.gen_scalar(rng, a["t"])["x"]) for _ in range(total)).hex()
                    npv = {"hex": hexd, "start": start, "step": step, "n": n, "two_d": rng.random() < 0.2}
                    if rng.random() < 0.15:
                        # a view that runs backwards through the memory of its base (a[::-1]): the pointer is
                        # to ITS first element, which is not the lowest address of the view
                        npv.update({"rev": True, "step": 1, "two_d": False, "start": a["k"] - 1 + rng.choice([0, 2])})
                        npv["hex"] = b"".join(bytes.fromhex(M.gen_scalar(rng, a["t"])["x"]) for _ in range(npv["start"] + n + 2)).hex()
                    vals.append({"np": npv})
            else:
                if w.schema[a["type"]]["k"] == "uref":
                    mem = [(m, x) for m, mt in enumerate(w.schema[a["type"]]["members"]) for x in w.live_objs(mt)]
                    if not mem:
                        ok = False
                        break
                    m, x = rng.choice(mem)
                    vals.append({"union_of": x.k})
                    continue
                cands = _objs_of(w, a["type"])
                if not cands:
                    ok = False
                    break
                o, at = rng.choice(cands)
                vals.append({"obj": o.k, "at": at, "via": gs._via(o)})
        if not ok:
            continue
        fl = [i for i, a in enumerate(p["args"]) if a["kind"] == "sc" and a["t"] in ("Float32", "Float64")]
        if len({p["args"][i]["t"] for i in fl}) == 2 and rng.random() < 0.5:
            # ONE Python float object given for a float and for a double parameter (a value that float cannot hold exactly)
            sv = rng.choice([0.1, 1.0 / 3.0, 2.0 / 3.0, 1e-3, 123456.789])
            for i in fl:
                vals[i] = {"shared_float": sv, "form": "py"}
        bad = None
        r = rng.random()
        if r < 0.25:
            kinds = ["positional", "missing", "extra", "misnamed", "misnamed"]
            if any(a["kind"] == "ptr" for a in p["args"]):
                kinds += ["wrong_dtype", "wrong_dtype", "wrong_xobj_dtype"]
            bad = rng.choice(kinds)
            if bad == "wrong_xobj_dtype":
                j = rng.choice([i for i, a in enumerate(p["args"]) if a["kind"] == "ptr"])
                cands = [c for c in _scalar_arrays(w, None, 1) if _item_t(w, c) != p["args"][j]["t"] and _ct_differs(_item_t(w, c), p["args"][j]["t"])]
                if not cands:
                    bad = "wrong_dtype"
                else:
                    o, path = rng.choice(cands)
                    vals[j] = {"xarr": [o.k, path]}
                    return {"op": "c_call", "probe": pi, "vals": vals, "bad": bad, "which": j}
            if bad == "wrong_dtype":
                j = rng.choice([i for i, a in enumerate(p["args"]) if a["kind"] == "ptr"])
                others = [t for t in typegen.SCALARS if _ct_differs(t, p["args"][j]["t"])]
                if "np" not in vals[j]:
                    vals[j] = {"np": {"hex": "00" * 64, "start": 0, "step": 1, "n": 4, "two_d": False}}
                op = {"op": "c_call", "probe": pi, "vals": vals, "bad": bad, "which": j, "other": rng.choice(others)}
                if rng.random() < 0.3 and np.dtype(typegen.SC_DTYPE[p["args"][j]["t"]]).itemsize > 1:
                    # the declared element type in the other byte order: same name, same width, other element type
                    op["other"] = p["args"][j]["t"]
                    op["swapped"] = True
                elif rng.random() < 0.3:
                    # element types outside the ten the library knows (some as wide as the declared one)
                    op["exotic"] = rng.choice(["float16", "bool", "S4", "U1", "S8", "V8", "S2", "V4", "S1", "complex64", "datetime64[s]", "timedelta64[s]", "longdouble"])
                return op
        return {"op": "c_call", "probe": pi, "vals": vals, "bad": bad, "which_name": rng.randrange(8)}
    return None


def _item_t(w, c):
    o, path = c
    t, _, _, _ = M.node_at(w.schema, o.t, o.node, path)
    return w.schema[w.schema[t]["item"]]["t"]


def _ct_differs(t1, t2):
    return CT[t1] != CT[t2]


# ------------------------------------------------------------------------------
# execution


def run_call(step):
    from .objsim import Skip
    from .capisim import base_address, lay_key

    w, op, res = step.w, step.op, step.res
    schema = w.schema
    probes = cur_probes(w)
    if op["probe"] >= len(probes):
        raise Skip()
    p = probes[op["probe"]]
    ker = getattr(w.cctx.kernels, p["name"])
    kwargs = {}
    expect = []  # (description, expected bytes, padded length)
    writes = []  # callables applied to the model / expectations after a successful call
    keep = []
    bad = op.get("bad")
    for i, (a, v) in enumerate(zip(p["args"], op["vals"])):
        nm = f"a{i}"
        if a["kind"] == "sc" and "shared_float" in v:
            dt = np.dtype(typegen.SC_DTYPE[a["t"]])
            if "shared_float_obj" not in step.__dict__:
                step.shared_float_obj = float(v["shared_float"])
            kwargs[nm] = step.shared_float_obj  # the identical object for every such parameter
            expect.append((f"scalar {nm}:{a['t']} (one float object shared by several parameters)", dt.type(step.shared_float_obj).tobytes(), 8))
            res.probe("c_call_one_object_for_two_parameters")
        elif a["kind"] == "sc":
            py = M.scalar_py(a["t"], v["v"])
            dt = np.dtype(typegen.SC_DTYPE[a["t"]])
            if v["form"] == "np":
                py = dt.type(py)
            elif v["form"] == "np64" and dt.kind in "iu" and -(2**63) <= int(py) < 2**63:
                py = np.int64(py)
            kwargs[nm] = py
            expect.append((f"scalar {nm}:{a['t']}", bytes.fromhex(v["v"]["x"]), 8))
        elif a["kind"] == "ptr":
            dt = np.dtype(typegen.SC_DTYPE[a["t"]])
            nbytes = a["k"] * dt.itemsize
            if "xarr" in v:
                o = step.get_obj(v["xarr"][0])
                path = v["xarr"][1]
                try:
                    t, node, _, _ = M.node_at(schema, o.t, o.node, path)
                except Exception:
                    raise Skip()
                if node is None or schema[t]["k"] != "array" or schema[schema[t]["item"]]["k"] != "sc" or len(node.items) < (a["k"] if bad != "wrong_xobj_dtype" else 1):
                    raise Skip()
                if bad != "wrong_xobj_dtype" and schema[schema[t]["item"]]["t"] != a["t"]:
                    raise Skip()
                hnd = o.walk(path)
                kwargs[nm] = hnd
                try:
                    lay = step._layout(o)
                except DecodeError:
                    raise Skip()
                first = lay.get(lay_key(path) + (tuple(0 for _ in node.shape),))
                if first is None:
                    raise Skip()
                raw = seams.raw_bytes(o.buf)
                expect.append((f"first {a['k']} elements of xobject array {nm}", raw[first[0] : first[0] + nbytes], (nbytes + 7) // 8 * 8))
                res.probe("c_call_xobject_array_as_pointer")
                if not a["const"] and bad is None:
                    step.allowed.append((o.buf, first[0], first[0] + 1))
                    k0 = node.flat(tuple(0 for _ in node.shape))

                    def wr(node=node, k0=k0):
                        old = node.items[k0]
                        if old is not M.UNDEF:
                            node.items[k0] = bytes([old[0] ^ XOR]) + old[1:]

                    writes.append(wr)
                    if node.items[k0] is M.UNDEF:
                        raise Skip()
            else:
                nd = v["np"]
                base = np.frombuffer(bytearray.fromhex(nd["hex"]), dtype=dt)
                if bad == "wrong_dtype" and op.get("which") == i:
                    odt = np.dtype(typegen.SC_DTYPE[op["other"]])
                    if op.get("swapped"):
                        odt = odt.newbyteorder()
                        res.probe("c_call_refusal_byte_swapped_array")
                    if op.get("exotic"):
                        odt = np.dtype(op["exotic"])
                        res.probe("c_call_refusal_exotic_element_type")
                    base = np.zeros(len(base) + 4, dtype=odt)
                arr = base[nd["start"] :: nd["step"]][: nd["n"]]
                if nd.get("rev"):
                    arr = base[nd["start"] :: -1][: nd["n"]]  # base[start], base[start-1], ...
                if nd.get("two_d") and len(arr) >= 2 and len(arr) % 2 == 0:
                    arr = arr.reshape(2, -1)
                keep.append((base, arr))
                kwargs[nm] = arr
                flat = arr.reshape(-1)
                if nd.get("rev"):
                    # arr[0] is base[start]; behind that address lie base[start], base[start+1], ...
                    s0 = nd["start"]
                    if len(arr) < 1:
                        raise Skip()
                    exp = base[s0 : s0 + a["k"]].tobytes()
                    if len(exp) < nbytes:
                        raise Skip()
                    expect.append((f"{a['k']} elements behind the first element of reversed ndarray view {nm}", exp, (nbytes + 7) // 8 * 8))
                    res.probe("c_call_reversed_ndarray_view")
                elif nd["step"] == 1:
                    exp = flat[: a["k"]].tobytes() if len(flat) >= a["k"] else None
                    if exp is None:
                        raise Skip()
                    expect.append((f"first {a['k']} elements of ndarray {nm}", exp, (nbytes + 7) // 8 * 8))
                else:
                    # a strided array: the pointer is to its first element; memory behind it is the base's
                    s0 = nd["start"]
                    exp = base[s0 : s0 + a["k"]].tobytes()
                    if len(exp) < nbytes:
                        raise Skip()
                    expect.append((f"{a['k']} elements behind the first element of strided ndarray {nm}", exp, (nbytes + 7) // 8 * 8))
                    res.probe("c_call_strided_ndarray")
                if nd["start"]:
                    res.probe("c_call_ndarray_slice")
                if not a["const"] and bad is None:
                    want0 = bytes([base[nd["start"] : nd["start"] + 1].tobytes()[0] ^ XOR])

                    def chk(base=base, s=nd["start"], want0=want0, nm=nm):
                        got = base[s : s + 1].tobytes()[:1]
                        if got != want0:
                            step.viol("C17", "write_through_pointer_not_visible", ["ndarray"], f"kernel wrote through {nm} but the array's first element is unchanged")

                    writes.append(chk)
        else:
            tt = a["type"]
            if schema[tt]["k"] == "uref":
                x = step.get_obj(v["union_of"])
                if x.t not in schema[tt]["members"]:
                    raise Skip()
                hnd = w.classes[tt](x.handle(), _buffer=x.buf)
                keep.append(hnd)
                buf, off = x.buf, int(hnd._offset)
                res.probe("c_call_union_object")
            else:
                o = step.get_obj(v["obj"])
                at = v.get("at", [])
                try:
                    t2, node, _, _ = M.node_at(schema, o.t, o.node, at)
                except Exception:
                    raise Skip()
                if node is None or t2 != tt:
                    raise Skip()
                start = o.handle() if v.get("via") == "handle" and o.hnd is not None else o.view()
                hnd = o.walk(at, start)
                buf, off = o.buf, int(hnd._offset)
                if at:
                    res.probe("c_call_nested_object")
            if off != 0:
                res.probe("c_call_object_at_nonzero_offset")
            kwargs[nm] = hnd
            nb = obj_nbytes(w.dec, schema, tt)
            expect.append((f"address of {nm}", None, (buf, off)))
            if nb:
                expect.append((f"first {nb} bytes of {nm}", None, (buf, off, nb)))
    total = sum((e[2] if isinstance(e[2], int) else (8 if len(e[2]) == 2 else (e[2][2] + 7) // 8 * 8)) for e in expect)
    out = np.full(total + 16, 0xAB, dtype=np.uint8)
    kwargs["out"] = out
    res.features.add("c_call:" + ",".join(a["kind"] + ":" + (a.get("t") or schema[a["type"]]["k"]) for a in p["args"]) + f":{bad}")
    # ---- refused forms
    if bad is not None:
        try:
            if bad == "positional":
                ker(*kwargs.values())
            elif bad == "missing":
                kw = dict(kwargs)
                kw.pop(sorted(kw)[0])
                ker(**kw)
            elif bad == "extra":
                ker(**kwargs, bogus=1)
            elif bad == "misnamed":
                # the right number of arguments, one of them under a name the kernel does not have
                kw = dict(kwargs)
                victim = sorted(k for k in kw if k != "out")[op.get("which_name", 0) % max(1, len(kw) - 1)]
                kw[victim + "x"] = kw.pop(victim)
                ker(**kw)
            else:
                ker(**kwargs)
        except Exception as e:
            step.outcome = "refused:" + type(e).__name__
            res.probe("c_call_refused_" + bad)
            return
        step.outcome = "accepted"
        step.viol("C17", "invalid_call_not_refused", [bad] + (["byte_swapped"] if op.get("swapped") else []) + ([str(op["exotic"])] if op.get("exotic") else []), f"{p['name']} called with {bad} arguments did not raise")
        return
    # ---- the real call (buffers may have been relocated since the objects were made)
    before = {id(b): seams.raw_bytes(b) for b in w.bufs}
    try:
        ret = ker(**kwargs)
    except Exception as e:
        step.outcome = "raised:" + exc_sig(e)
        step.viol("C17", "call_raised", [exc_sig(e), ",".join(sorted({a["kind"] for a in p["args"]}))], f"{p['name']}: {type(e).__name__}: {e}")
        return
    res.probe("c_call_ok")
    got = out.tobytes()
    pos = 0
    for desc, exp, ln in expect:
        if exp is None and len(ln) == 2:
            buf, off = ln
            want = (base_address(buf) + off).to_bytes(8, "little", signed=True)
            n = 8
        elif exp is None:
            buf, off, nb = ln
            # bytes as they were before the call (objects are read-only for the probe)
            want = before[id(buf)][off : off + nb]
            n = (nb + 7) // 8 * 8
        else:
            want = exp
            n = ln
        if got[pos : pos + len(want)] != want:
            step.viol("C17", "argument_not_delivered", [desc.split(" ")[0] if not desc.startswith("first") else "pointee", "xobject" if "xobject" in desc or "address" in desc or "bytes of" in desc else "plain"], f"{p['name']}: {desc}: C saw {got[pos:pos+len(want)].hex()}, Python holds {want.hex()}")
            return
        pos += n
    if got[pos:] != b"\xab" * (len(got) - pos):
        step.viol("C17", "probe_overrun", [], "harness probe wrote beyond its record")
    rspec = p["ret"]
    if rspec is None:
        if ret is not None:
            step.viol("C17", "void_kernel_returned_value", [], repr(ret))
    else:
        dt = np.dtype(typegen.SC_DTYPE[rspec["t"]])
        if "arg" in rspec and "shared_float" in op["vals"][rspec["arg"]]:
            wantb = dt.type(float(op["vals"][rspec["arg"]]["shared_float"])).tobytes()
        else:
            wantb = bytes.fromhex(op["vals"][rspec["arg"]]["v"]["x"]) if "arg" in rspec else bytes.fromhex(rspec["const"])
        try:
            gotb = dt.type(ret).tobytes()
        except Exception as e:
            step.viol("C17", "return_value_changed", [rspec["t"], type(e).__name__], f"{p['name']} returned {ret!r}")
            return
        wv = np.frombuffer(wantb, dtype=dt)[0]
        if gotb != wantb and not (dt.kind == "f" and np.isnan(wv) and np.isnan(dt.type(ret))):
            step.viol("C17", "return_value_changed", [rspec["t"]], f"{p['name']} returned {ret!r}, kernel returned {wv!r}")
            return
    for f in writes:
        f()
