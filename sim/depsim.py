"""Engine C' — DepSim (C14): histories of kernel builds over generated class
dependency graphs.

World: a schema from the ObjSim grammar (structs with and without fields,
arrays, references, unions) plus declared dependencies (`_depends_on`, which
may close cycles) and structs declared through HybridClass.  Operations:

  sort   xo.context.sort_classes(roots in a given order)
  build  ctx.add_kernels(kernels=accessors of the roots, extra_classes=roots)
         with the `classes_from_kernels` seam returning the class set in a
         seeded permutation (the library iterates a set whose order depends on
         object addresses: the simulator owns that order, which is what makes a
         failure replayable), compiled by the real cffi/gcc path.

Oracle (own closure of the schema, not the library's): every class with an API
reachable from the roots is listed / emitted exactly once, after everything it
depends on; nothing else is listed; the build compiles; a reachable cycle
raises instead of producing source.
"""
import random

from .core import RunResult, Viol, exc_sig
from . import seams, typegen

xo = seams.xo


def gen_world(rng, tier):
    sw = {
        "strings": rng.random() < 0.5,
        "dyn_struct": True,
        "dyn_items": rng.random() < 0.7,
        "dyn_shape": rng.random() < 0.7,
        "nd": rng.random() < 0.5,
        "orders": rng.random() < 0.5,
        "refs": rng.random() < 0.7,
        "urefs": rng.random() < 0.6,
        "class_arrays": rng.random() < 0.4,
        "defaults": False,
        "fieldless": rng.random() < 0.7,
        "short_names": rng.random() < 0.25,
        "zero_static": rng.random() < 0.45,
        "max_types": rng.choice([3, 5, 8, 12]),
        "min_types": 2,
        "max_depth": rng.choice([2, 3, 4, 6]),
    }
    schema = typegen.gen_schema(rng, sw)
    # next to an array with a static zero-length axis, the array that has a dynamic axis there, and a
    # struct that holds both (their generated names differ in one letter)
    if sw.get("zero_static") and not any(ty["k"] == "array" and 0 in ty["shape"] for ty in schema):
        scs = [i for i, ty in enumerate(schema) if ty["k"] == "sc"]
        it = rng.choice(scs)
        shp = rng.choice([[0], [0], [3, 0], [0, 2]])
        nm = f"Arr{typegen.sugar_suffix(shp)}{typegen.type_name(schema, it)}"
        if not any(x.get("name") == nm for x in schema):
            schema.append({"k": "array", "name": nm, "item": it, "shape": shp, "order": list(range(len(shp))), "decl": "sugar", "order_decl": None})
    for i, ty in list(enumerate(schema)):
        if ty["k"] == "array" and ty.get("decl") == "sugar" and 0 in ty["shape"]:
            shape2 = [None if d == 0 else d for d in ty["shape"]]
            name2 = f"Arr{typegen.sugar_suffix(shape2)}{typegen.type_name(schema, ty['item'])}"
            if not any(x.get("name") == name2 for x in schema):
                schema.append(dict(ty, shape=shape2, name=name2))
                j = len(schema) - 1
            else:
                j = [q for q, x in enumerate(schema) if x.get("name") == name2][0]
            schema.append({"k": "struct", "name": f"Z{len(schema)}", "fields": [["z0", i], ["z1", j]], "decl": "class"})
    structs = [i for i, ty in enumerate(schema) if ty["k"] == "struct"]
    comp = [i for i, ty in enumerate(schema) if ty["k"] in ("struct", "array", "uref", "ref")]
    depends = []
    # (declared dependencies are not a privilege of structs: array classes declared with `class`
    # and unions can carry `_depends_on` as well)
    holders = [i for i, ty in enumerate(schema) if (ty["k"] == "array" and ty.get("decl") == "class") or ty["k"] == "uref"]
    if structs and rng.random() < 0.7:
        for _ in range(rng.choice([1, 1, 2, 3])):
            s = rng.choice(holders) if holders and rng.random() < 0.3 else rng.choice(structs)
            r = rng.random()
            if r < 0.7:
                cands = [c for c in comp if c < s]  # forward edge: acyclic
            else:
                cands = [c for c in comp if c > s]  # may close a cycle
            if cands:
                depends.append([s, rng.choice(cands)])
    # classes derived from other classes (named arrays `class Position(Vec3)`, structs deriving
    # from structs and declaring their own fields), used next to their bases
    counter = len(schema)
    for _ in range(rng.choice([0, 0, 1, 2])):
        arrays = [i for i, ty in enumerate(schema) if ty["k"] == "array" and not ty.get("base")]
        sts = [i for i, ty in enumerate(schema) if ty["k"] == "struct" and not ty.get("base")]
        if arrays and (rng.random() < 0.5 or not sts):
            b = rng.choice(arrays)
            schema.append(dict(schema[b], name=f"D{counter}", decl="derived", base=b))
        elif sts:
            b = rng.choice(sts)
            sc = [i for i, ty in enumerate(schema) if ty["k"] == "sc"]
            schema.append({"k": "struct", "name": f"D{counter}", "fields": [["g0", rng.choice(sc)], ["g1", rng.choice(comp) if comp and rng.random() < 0.5 else rng.choice(sc)]], "decl": "derived", "base": b})
        else:
            break
        d = len(schema) - 1
        counter += 1
        if schema[d]["k"] == "struct" and rng.random() < 0.5:
            schema.append({"k": "ref", "to": d})
            dref = len(schema) - 1
        else:
            dref = d
        pair = [["u0", b], ["u1", dref]]
        if rng.random() < 0.5:
            pair.reverse()
        schema.append({"k": "struct", "name": f"X{counter}", "fields": pair, "decl": "class"})
        counter += 1
    structs = [i for i, ty in enumerate(schema) if ty["k"] == "struct"]
    comp = [i for i, ty in enumerate(schema) if ty["k"] in ("struct", "array", "uref", "ref")]
    # a same-named twin of a struct nothing else refers to: "in case of multiple classes with the
    # same name, the last one is used" — it carries one more dependency than the class it overrides
    twins = []
    if rng.random() < 0.3:
        referenced = set()
        for i in range(len(schema)):
            referenced.update(_static_deps(schema, i))
        referenced.update(b for a, b in depends)
        free = [i for i in structs if i not in referenced and not schema[i].get("base")]
        others = [i for i in comp if schema[i]["k"] in ("struct", "array")]
        if free and others:
            t1 = rng.choice(free)
            extra = rng.choice([i for i in others if i != t1] or others)
            if extra != t1 and t1 not in closure({"schema": schema, "depends": depends}, [extra]):
                schema.append({"k": "struct", "name": schema[t1]["name"], "fields": list(schema[t1]["fields"]) + [["tw", extra]], "decl": "class", "twin_of": t1})
                twins.append(len(schema) - 1)
    hybrid = [s for s in structs if rng.random() < 0.25 and not schema[s].get("base")]
    # declared dependency lists of hybrid classes as users write them (`Parent._depends_on + [...]`):
    # several entries, some redundant (repeated, or already the type of a field), hybrid and plain
    # classes mixed, in any order
    dep_order = {}
    tw = set(twins)
    for s in hybrid:
        if tw or rng.random() < 0.5:
            continue  # (with a same-named twin in the world an added edge could close a cycle through it)
        twinned = {schema[t]["twin_of"] for t in tw}  # (an edge to a class that a same-named twin overrides could close a cycle through the twin)
        below = [c for c in comp if c < s and c not in tw and c not in twinned and schema[c]["k"] in ("struct", "array", "uref")]
        if not below:
            continue
        lst = [d for a, d in depends if a == s and d < s]
        ftypes = [f[1] for f in schema[s]["fields"] if f[1] in below]
        hyb_below = [c for c in below if c in hybrid]
        for _ in range(rng.choice([1, 2, 3])):
            r = rng.random()
            if r < 0.35 and (ftypes or lst):
                lst.append(rng.choice(ftypes + lst))  # redundant
            elif r < 0.7 and hyb_below:
                lst.append(rng.choice(hyb_below))
            else:
                lst.append(rng.choice(below))
        if rng.random() < 0.5:
            rng.shuffle(lst)
        dep_order[str(s)] = lst
        for d in lst:
            if [s, d] not in depends:
                depends.append([s, d])
    nops = rng.choice([1, 2, 3, 4]) if tier == "quick" else rng.choice([2, 4, 6])
    return {"schema": schema, "depends": depends, "dep_order": dep_order, "hybrid": hybrid, "twins": twins, "switches": sw, "omp": rng.choice([0, 0, 0, 2]), "nops": nops}


def gen_op(rng, spec):
    schema = spec["schema"]
    twins = set(spec.get("twins", []))
    api = [i for i, ty in enumerate(schema) if ty["k"] in ("struct", "array", "uref") and i not in twins]
    refs = [i for i, ty in enumerate(schema) if ty["k"] == "ref"]
    k = rng.choice([1, 1, 2, 3, 4])
    roots = [rng.choice(api) for _ in range(k)]
    zs = [i for i in api if schema[i]["k"] == "struct" and schema[i]["name"].startswith("Z")]
    if zs and rng.random() < 0.5:
        roots[rng.randrange(len(roots))] = rng.choice(zs)
    if twins and rng.random() < 0.6:
        tw = rng.choice(sorted(twins))
        t1 = schema[tw]["twin_of"]
        roots = [r for r in roots if r != t1]
        pos = rng.randrange(len(roots) + 1)
        roots[pos:pos] = [t1, tw] if rng.random() < 0.7 else [tw]
    if refs and rng.random() < 0.2:
        roots.insert(rng.randrange(len(roots) + 1), rng.choice(refs))
    if rng.random() < 0.15:
        roots.append(roots[0])  # the same class named twice
    kind = "build" if rng.random() < 0.6 else "sort"
    return {"op": kind, "roots": roots, "perm": rng.getrandbits(30)}


def _with_class_change(rng, spec, oplist):
    """[build R, add a member to a union reachable from R, build R again] spliced into the history."""
    schema = spec["schema"]
    twins = set(spec.get("twins", []))
    if rng.random() >= 0.35:
        return oplist
    urefs = [i for i, ty in enumerate(schema) if ty["k"] == "uref" and i not in twins]
    if not urefs:
        return oplist
    u = rng.choice(urefs)
    hybrid = set(spec.get("hybrid", [])) if not isinstance(spec.get("hybrid"), dict) else set(int(k) for k in spec["hybrid"])
    names_u = {schema[t].get("name") for t in schema[u]["members"]}
    cands = [i for i, ty in enumerate(schema) if ty["k"] in ("struct", "array") and i not in twins and i not in schema[u]["members"] and ty.get("name") not in names_u and i not in hybrid and not ty.get("hybrid") and sum(1 for x in schema if x.get("name") == ty.get("name")) == 1]
    acyclic = [i for i in cands if u not in closure(spec, [i])]
    cyclic = [i for i in cands if u in closure(spec, [i])]
    pool = cyclic if cyclic and rng.random() < 0.25 else acyclic
    if not pool:
        return oplist
    m = rng.choice(pool)
    holders = [i for i, ty in enumerate(schema) if ty["k"] in ("struct", "array", "uref") and i not in twins and u in closure(spec, [i])]
    roots = [rng.choice(holders)] + ([rng.choice(holders)] if rng.random() < 0.4 else [])
    first = {"op": "build", "roots": roots, "perm": rng.getrandbits(30)}
    second = {"op": rng.choice(["build", "build", "sort"]), "roots": list(roots), "perm": rng.getrandbits(30)}
    j = rng.randrange(len(oplist) + 1)
    return oplist[:j] + [first, {"op": "grow_union", "u": u, "m": m}, second] + oplist[j:]


def build_classes(spec):
    """Classes of the schema, with `_depends_on` and HybridClass declarations."""
    schema = spec["schema"]
    hybrid = set(spec.get("hybrid", []))
    depends = [tuple(x) for x in spec.get("depends", [])]
    out = []
    hyb = {}
    done = set()
    for i, ty in enumerate(schema):
        if ty["k"] == "struct" and i in hybrid:
            data = {f[0]: hyb.get(f[1], out[f[1]]) for f in ty["fields"]}
            # forward declared dependencies go through the metaclass (which rewrites
            # hybrid classes to their _XoStruct)
            fwd = [d for s, d in depends if s == i and d < i]
            if str(i) in spec.get("dep_order", {}):
                fwd = list(spec["dep_order"][str(i)])
            decl = {"_cname": ty["name"], "_xofields": data}
            if fwd:
                decl["_depends_on"] = [hyb.get(d, out[d]) for d in fwd]
                done.update((i, d) for d in fwd)
            H = type(ty["name"] + "Py", (xo.HybridClass,), decl)
            hyb[i] = H
            out.append(H._XoStruct)
        else:
            out.append(_build_one(schema, i, out))
    for s, d in depends:
        if (s, d) not in done:
            if "_depends_on" not in out[s].__dict__:
                out[s]._depends_on = []  # (array / union class: same as declaring it in the class body)
            out[s]._depends_on.append(out[d])
    return out


def _build_one(schema, i, out):
    ty = schema[i]
    k = ty["k"]
    if k == "sc":
        return getattr(xo, ty["t"])
    if k == "str":
        return xo.String
    if k == "struct":
        data = {f[0]: out[f[1]] for f in ty["fields"]}
        base = out[ty["base"]] if ty.get("decl") == "derived" else xo.Struct
        return type(ty["name"], (base,), data)
    if k == "array" and ty.get("decl") == "derived":
        return type(ty["name"], (out[ty["base"]],), {})
    if k == "array":
        item = out[ty["item"]]
        if ty["decl"] == "sugar":
            spec = tuple(slice(d, o) for d, o in zip(ty["shape"], ty["order"]))
            nd = len(spec)
            if list(ty["order"]) == list(range(nd)):
                spec = tuple(slice(d, None) if d is None else d for d in ty["shape"])
            if nd == 1:
                spec = spec[0]
            return item[spec]
        data = {"_itemtype": item, "_shape": tuple(ty["shape"])}
        if ty.get("order_decl"):
            data["_order"] = ty["order_decl"]
        elif list(ty["order"]) != list(range(len(ty["shape"]))):
            data["_order"] = tuple(ty["order"])
        return type(ty["name"], (xo.Array,), data)
    if k == "ref":
        return xo.Ref[out[ty["to"]]]
    if k == "uref":
        return type(ty["name"], (xo.UnionRef,), {"_reftypes": [out[m] for m in ty["members"]]})
    raise ValueError(k)


def _static_deps(schema, t):
    ty = schema[t]
    k = ty["k"]
    if k == "struct":
        return [f[1] for f in ty["fields"]]
    if k == "array":
        return [ty["item"]]
    if k == "ref":
        return [ty["to"]]
    if k == "uref":
        return list(ty["members"])
    return []


def deps_of(spec, t):
    ty = spec["schema"][t]
    k = ty["k"]
    d = []
    if k == "struct":
        d = [f[1] for f in ty["fields"]]
    elif k == "array":
        d = [ty["item"]]
    elif k == "ref":
        d = [ty["to"]]
    elif k == "uref":
        d = list(ty["members"])
    d += [b for a, b in spec.get("depends", []) if a == t]
    if k == "array" and ty.get("base") is not None and not any(a == t for a, b in spec.get("depends", [])):
        # a named array derived from an array class inherits that class's `_depends_on` (a plain class
        # attribute for arrays; struct classes get a list of their own from their metaclass)
        b0 = ty["base"]
        while b0 is not None:
            d += [b for a, b in spec.get("depends", []) if a == b0]
            b0 = spec["schema"][b0].get("base")
    return d


def closure(spec, roots):
    seen = []
    stack = list(roots)
    while stack:
        t = stack.pop()
        if t in seen:
            continue
        seen.append(t)
        stack.extend(deps_of(spec, t))
    return seen


def has_cycle(spec, nodes):
    color = {}

    def visit(t):
        color[t] = 1
        for d in deps_of(spec, t):
            if color.get(d) == 1:
                return True
            if color.get(d) is None and visit(d):
                return True
        color[t] = 2
        return False

    return any(color.get(t) is None and visit(t) for t in nodes)


class DepSim:
    name = "depsim"
    needs_scratch = True
    components = {
        "real": ["xobjects.context.sort_classes / topological_sort / sources_from_classes", "T._gen_c_api / _gen_c_decl / _gen_kernels for structs, arrays, refs, unions", "HybridClass metaclass (_XoStruct, _depends_on rewriting)", "ContextCpu.add_kernels / build_kernels / compile_kernel (cffi + gcc)", "specialize_source"],
        "stub": ["xobjects.context_cpu.classes_from_kernels wrapped: returns the same classes as a list in a seeded permutation instead of a set in address-hash order"],
    }
    not_claimed = {"C14": ["same-name classes are generated only as explicit roots (a twin that overrides a struct nothing else refers to); same-name classes reached as dependencies are not generated"]}
    assumptions = {"C14": ["the dependency relation is: field types, item type, reference target, union members, declared _depends_on (closure computed by the harness from the schema)", "classes with an API are structs, arrays, references and unions; scalars and String have none"]}

    def run(self, prop, profile, rng=None, replay=None, tier="quick"):
        res = RunResult()
        res.profile = profile
        if replay is not None:
            spec = replay["world"]
            oplist = list(replay["ops"])
        else:
            spec = gen_world(rng, tier)
            oplist = [gen_op(rng, spec) for _ in range(spec["nops"])]
            oplist = _with_class_change(rng, spec, oplist)
        ops = []
        import json as _json

        # (a copy: steps that change a class also change the schema the oracle reads)
        res.replay = {"world": _json.loads(_json.dumps(spec)), "ops": ops, "profile": profile, "engine": "depsim"}
        spec = _json.loads(_json.dumps(spec))
        spec["depends"] = [tuple(x) for x in spec.get("depends", [])]
        try:
            classes = build_classes(spec)
        except Exception as e:
            res.error = f"harness: class construction failed: {type(e).__name__}: {e}"
            return res
        names = [getattr(c, "__name__", None) for c in classes]
        # classes are told apart by name everywhere in a build (sorter, include guards, typedefs): two
        # classes of different shape that get one generated name can never both be emitted once
        seen_nm = {}
        for t, ty in enumerate(spec["schema"]):
            if ty["k"] == "array" and ty.get("decl") == "sugar" and not ty.get("base"):
                key = (ty["item"], tuple(ty["shape"]))
                other = seen_nm.setdefault(names[t], key)
                if other != key and other[0] == key[0]:
                    res.viols = [Viol("C14", "distinct_array_classes_share_a_generated_name", ["naming"], f"{names[t]}: shapes {other[1]} and {key[1]} (the schema calls the second {ty['name']})")]
                    res.viol_step = 0
                    return res
        ctx = xo.ContextCpu(omp_num_threads=spec.get("omp", 0))
        cc = xo.context_cpu
        real_cfk = cc.classes_from_kernels
        old_info = xo.ContextCpu._compile_kernels_info
        xo.ContextCpu._compile_kernels_info = False
        try:
            for op in oplist:
                if op["op"] == "grow_union":
                    # a class that has been built already gets another member: the next build of the
                    # same roots on the same context has to take the class as it is now
                    u, m = op["u"], op["m"]
                    if u >= len(classes) or m >= len(classes) or spec["schema"][u]["k"] != "uref" or m in spec["schema"][u]["members"]:
                        res.skipped += 1
                        continue
                    classes[u]._reftypes.append(classes[m])
                    spec["schema"][u]["members"].append(m)
                    ops.append(op)
                    res.steps += 1
                    res.fault("class_changed_between_builds")
                    res.log.append([res.steps, "grow_union", [u, m], []])
                    continue
                if any(r >= len(classes) for r in op["roots"]):
                    res.skipped += 1
                    continue
                ops.append(op)
                res.steps += 1
                res.own_ops += 1
                viols = self.step(spec, classes, names, ctx, op, res, cc, real_cfk)
                res.log.append([res.steps, op["op"], op["roots"], sorted({v.oracle for v in viols})])
                if viols:
                    res.viols = viols
                    res.viol_step = res.steps - 1
                    break
        finally:
            cc.classes_from_kernels = real_cfk
            xo.ContextCpu._compile_kernels_info = old_info
        return res

    def step(self, spec, classes, names, ctx, op, res, cc, real_cfk):
        schema = spec["schema"]
        viols = []

        def viol(oracle, sig, detail):
            viols.append(Viol("C14", oracle, [str(s) for s in sig], detail))

        roots = op["roots"]
        # among roots of one name the last one counts (documented override)
        last = {}
        for r in roots:
            last[names[r]] = r
        eff = [r for r in roots if last[names[r]] == r]
        if len(eff) < len(set(roots)):
            res.probe("same_name_override")
        reach = closure(spec, eff)
        allowed_names = {names[t] for t in closure(spec, roots)}
        api = [t for t in reach if schema[t]["k"] in ("struct", "array", "ref", "uref")]
        want_names = {names[t] for t in api}
        cyc = has_cycle(spec, closure(spec, roots))
        if any(schema[t].get("decl") == "derived" for t in api):
            res.probe("derived_class_reachable")
        res.features.add(f"{op['op']}:n{min(len(api), 12)}:{'cyc' if cyc else 'dag'}:{'dup' if len(set(roots)) < len(roots) else 'nodup'}")
        if cyc:
            res.fault("cycle")
        if any(not deps_of(spec, t) and schema[t]["k"] == "struct" for t in api):
            res.probe("class_without_dependencies_reachable")
        if len(set(roots)) < len(roots):
            res.probe("root_named_twice")
        root_classes = [classes[r] for r in roots]
        dep_names = {names[t]: {names[d] for d in deps_of(spec, t) if schema[d]["k"] in ("struct", "array", "ref", "uref")} for t in api}

        def check_order(listed, what):
            cnt = {}
            for n in listed:
                cnt[n] = cnt.get(n, 0) + 1
            for n in sorted(want_names):
                if cnt.get(n, 0) == 0:
                    viol("class_api_missing", [what], f"{n} is reachable from roots {[names[r] for r in roots]} but absent from {listed}")
                    return
                if cnt[n] > 1:
                    viol("class_api_emitted_twice", [what], f"{n} appears {cnt[n]} times in {listed}")
                    return
            extra = [n for n in listed if n not in want_names and n not in allowed_names]
            if extra:
                viol("unreachable_class_emitted", [what], f"{extra} not reachable from {[names[r] for r in roots]}")
                return
            pos = {n: i for i, n in enumerate(listed)}
            for n in listed:
                for d in dep_names.get(n, ()):
                    if pos[d] > pos[n]:
                        viol("class_before_its_dependency", [what], f"{n} at {pos[n]} precedes its dependency {d} at {pos[d]} in {listed}")
                        return

        if op["op"] == "sort":
            try:
                out = xo.context.sort_classes(list(root_classes))
            except Exception as e:
                if cyc:
                    res.probe("cycle_reported")
                    return viols
                viol("sort_raised", [exc_sig(e)], f"{type(e).__name__}: {e}; roots {[names[r] for r in roots]}")
                return viols
            if cyc:
                viol("cycle_not_reported", ["sort"], f"roots {[names[r] for r in roots]} reach a dependency cycle but sort_classes returned {[c.__name__ for c in out]}")
                return viols
            check_order([c.__name__ for c in out], "sort")
            return viols
        # ---- build
        kern = {}
        for c, r in zip(root_classes, roots):
            # kernels are declared on the classes that count (an overridden same-name class
            # contributes its presence in the class list, not accessor declarations)
            if schema[r]["k"] in ("struct", "array", "uref") and r in eff:
                kern.update(c._gen_kernels())
        prng = random.Random(op["perm"])

        def permuted(kernels):
            lst = sorted(real_cfk(kernels), key=lambda c: c.__name__)
            prng.shuffle(lst)
            res.fault("hash_order")
            return lst

        cc.classes_from_kernels = permuted
        try:
            built = ctx.build_kernels(kernel_descriptions=kern, sources=[], extra_classes=list(root_classes), extra_compile_args=("-O0", "-Wno-unused-function"), extra_link_args=("-O0",))
        except Exception as e:
            if cyc:
                res.probe("cycle_reported")
                return viols
            viol("build_failed", [exc_sig(e)], f"{type(e).__name__}: {str(e)[-1200:]}; roots {[names[r] for r in roots]}")
            return viols
        finally:
            cc.classes_from_kernels = real_cfk
        if cyc:
            viol("cycle_not_reported", ["build"], f"roots {[names[r] for r in roots]} reach a dependency cycle but the build produced source")
            return viols
        res.probe("builds_compiled")
        src = None
        for k in built.values():
            src = k.specialized_source
            break
        if src is not None:
            import re

            listed = re.findall(r"^#define XOBJ_TYPEDEF_(\w+)\s*$", src, flags=re.M)
            check_order(listed, "source")
            if not viols:
                # before first use: the typedef of a class precedes every other mention of its name as a C type
                for n in sorted(want_names):
                    m = re.search(r"^#define XOBJ_TYPEDEF_" + re.escape(n) + r"\s*$", src, flags=re.M)
                    use = re.search(r"(?<![\w])" + re.escape(n) + r"(?![\w])", src)
                    if m and use and use.start() < m.start() - len("#ifndef XOBJ_TYPEDEF_") - len(n) - 2:
                        viol("class_used_before_its_api", ["source"], f"{n} mentioned at {use.start()} before its definition block at {m.start()}")
                        break
        return viols
