"""Stub OpenCL / CUDA platform for DevSim.

No GPU runtime exists in the sandbox.  The *real* ContextPyopencl / ContextCupy
code (build_kernels: class sorting, source assembly, specialisation, headers;
KernelPyopencl / KernelCupy.__call__: argument conversion and launch geometry)
runs unmodified against the small fakes below, installed as
`xobjects.context_pyopencl.cl / cla` and `xobjects.context_cupy.cupy`.

Stub compiler: `Program(ctx, src).build()` / `RawModule(code=src)` hand the
specialised text to the host: OpenCL text is compiled as C, CUDA text as C++,
behind a shim that defines the target keywords away and provides
get_global_id / blockIdx / blockDim / threadIdx as variables the launcher sets.
The result is a shared object loaded with ctypes (RTLD_LOCAL).

Simulated launch: the kernel function is called once per work-item in an order
given by the simulator's schedule (identity, reverse, shuffle, block-wise
shuffle); for CUDA all grid*block threads run, including the tail >= n.
Device memory = numpy arrays.
"""
import ctypes
import os
import subprocess
import types
import itertools

import numpy as np

SHIM_CL = r"""
#define __kernel
#define __global
#define __constant const
#define __local
#define __private
#define XO_HOST_DEVICE_STUB 1
static long __xo_gid0 = 0;
void __xo_set_gid(long g){ __xo_gid0 = g; }
static long get_global_id(int d){ (void)d; return __xo_gid0; }
"""

SHIM_CUDA = r"""
#define __global__
#define __device__
#define __host__
#define XO_HOST_DEVICE_STUB 1
/* the text is compiled as NVRTC compiles device code: the architecture macro is defined and the
   device intrinsics that generated code may use exist (read-only-cache load = plain load) */
#define __CUDA_ARCH__ 800
template <typename T> static inline T __ldg(const T* p){ return *p; }
struct __xo_uint3 { unsigned int x, y, z; };
static __xo_uint3 blockIdx, blockDim, threadIdx, gridDim;
extern "C" void __xo_set_idx(unsigned int b, unsigned int bd, unsigned int t, unsigned int gd){
  blockIdx.x = b; blockDim.x = bd; threadIdx.x = t; gridDim.x = gd;
}
"""

_counter = itertools.count()


class DeviceBuildError(Exception):
    pass


def build_so(kind, source, tag="dev"):
    """Compile target text for the host; returns a ctypes library."""
    k = next(_counter)
    base = os.path.abspath(f"xodev_{os.getpid()}_{k}_{tag}")
    if kind == "opencl":
        src, cmd = base + ".c", ["gcc", "-x", "c", "-std=gnu99"]
        text = SHIM_CL + source
    elif kind == "cuda":
        src, cmd = base + ".cpp", ["g++", "-x", "c++"]
        text = SHIM_CUDA + source
    else:
        raise ValueError(kind)
    so = base + ".so"
    with open(src, "w") as f:
        f.write(text)
    try:
        p = subprocess.run(cmd + ["-shared", "-fPIC", "-O0", "-w", src, "-o", so], capture_output=True, text=True, timeout=120)
        if p.returncode != 0:
            raise DeviceBuildError(f"{kind} text does not compile on the host with the target keywords defined away: {p.stderr[-1500:]}")
        lib = ctypes.CDLL(so, mode=ctypes.RTLD_LOCAL)
    finally:
        for fn in (src, so):
            try:
                os.remove(fn)
            except OSError:
                pass
    return lib


def clang_cl_check(source, std):
    """OpenCL front-end of clang (syntax + address-space checking only)."""
    k = next(_counter)
    src = os.path.abspath(f"xodev_{os.getpid()}_{k}.cl")
    with open(src, "w") as f:
        f.write(source)
    try:
        p = subprocess.run(["clang", "-x", "cl", f"-cl-std={std}", "-fsyntax-only", "-w", "-Xclang", "-finclude-default-header", src], capture_output=True, text=True, timeout=120)
        return p.returncode, p.stderr[-2000:]
    finally:
        try:
            os.remove(src)
        except OSError:
            pass


_CT = {"float64": ctypes.c_double, "float32": ctypes.c_float, "int64": ctypes.c_int64, "uint64": ctypes.c_uint64, "int32": ctypes.c_int32, "uint32": ctypes.c_uint32, "int16": ctypes.c_int16, "uint16": ctypes.c_uint16, "int8": ctypes.c_int8, "uint8": ctypes.c_uint8}


class Schedule:
    """Work-item execution order; set by the simulator before each launch."""

    def __init__(self):
        self.kind = "identity"
        self.seed = 0
        self.launches = []  # geometry actually used, read back by the simulator

    def order(self, total, block=None):
        import random

        idx = list(range(total))
        if self.kind == "reverse":
            idx.reverse()
        elif self.kind == "shuffle":
            random.Random(self.seed).shuffle(idx)
        elif self.kind == "blockshuffle" and block:
            blocks = [idx[i : i + block] for i in range(0, total, block)]
            r = random.Random(self.seed)
            r.shuffle(blocks)
            for b in blocks:
                r.shuffle(b)
            idx = [i for b in blocks for i in b]
        elif self.kind == "blockshuffle":
            random.Random(self.seed).shuffle(idx)
        return idx


SCHED = Schedule()


def _conv(a):
    """Kernel argument as handed over by the real to_function_arg -> ctypes value."""
    if isinstance(a, FakeBuffer):
        return ctypes.c_void_p(a.address())
    if isinstance(a, np.generic):
        return _CT[a.dtype.name](a.item())
    if isinstance(a, memoryview):
        arr = np.frombuffer(a, dtype=np.uint8)
        return ctypes.c_void_p(arr.ctypes.data)
    if isinstance(a, np.ndarray):
        return ctypes.c_void_p(a.ctypes.data)
    raise TypeError(f"stub device cannot take argument {type(a)}")


# ------------------------------------------------------------------------------
# fake pyopencl


class FakeBuffer:
    def __init__(self, context=None, flags=None, size=0, _mem=None, _off=0):
        self.mem = _mem if _mem is not None else np.zeros(int(size), dtype=np.uint8)
        self.off = _off
        self.size = int(size) if _mem is None else len(_mem) - _off

    def __getitem__(self, sl):
        start = sl.start or 0
        return FakeBuffer(_mem=self.mem, _off=self.off + start)

    def address(self):
        return int(self.mem.ctypes.data) + self.off


class FakeCLArray:
    def __init__(self, queue=None, shape=None, dtype=None, data=None, offset=0, **kw):
        self.queue = queue
        self.shape = tuple(shape) if not isinstance(shape, int) else (shape,)
        self.dtype = np.dtype(dtype)
        n = int(np.prod(self.shape))
        self.base_data = data if data is not None else FakeBuffer(size=n * self.dtype.itemsize)
        self.offset = offset
        self.nbytes = n * self.dtype.itemsize

    def host(self):
        n = int(np.prod(self.shape))
        return np.frombuffer(self.base_data.mem, dtype=self.dtype, count=n, offset=self.base_data.off + self.offset).reshape(self.shape)

    def get(self):
        return self.host().copy()


class _Event:
    def wait(self):
        return None


class _CLKernel:
    def __init__(self, lib, name):
        self.setgid = getattr(lib, "__xo_set_gid")
        self.fn = getattr(lib, name)
        self.lib = lib
        self.name = name

    def __call__(self, queue, gsize, lsize, *args):
        n = int(gsize[0])
        SCHED.launches.append(("opencl", self.name, n, None))
        cargs = [_conv(a) for a in args]
        self.fn.restype = None
        for gid in SCHED.order(n):
            self.setgid(ctypes.c_long(gid))
            self.fn(*cargs)
        return _Event()


class _CLProgram:
    sources = []  # every text handed to the stub compiler (read by the simulator)

    def __init__(self, context, source):
        self.source = source
        self.lib = None

    def build(self, options=None):
        _CLProgram.sources.append(("opencl", self.source, options))
        self.lib = build_so("opencl", self.source)
        return self

    def __getattr__(self, name):
        if name.startswith("__"):
            raise AttributeError(name)
        return _CLKernel(self.lib, name)


def make_fake_cl():
    cl = types.SimpleNamespace()
    dev = types.SimpleNamespace(name="stub-device")
    plat = types.SimpleNamespace(name="stub-platform", get_devices=lambda: [dev])
    dev.platform = plat
    ctx = types.SimpleNamespace(devices=[dev])
    cl.create_some_context = lambda interactive=False: ctx
    cl.get_platforms = lambda: [plat]
    cl.Context = lambda devices: types.SimpleNamespace(devices=devices)
    cl.CommandQueue = lambda c: types.SimpleNamespace(context=c)
    cl.Program = _CLProgram
    cl.Buffer = FakeBuffer
    cl.mem_flags = types.SimpleNamespace(READ_WRITE=1)
    cla = types.SimpleNamespace(Array=FakeCLArray)
    cl.array = cla
    return cl, cla


# ------------------------------------------------------------------------------
# fake cupy


class _CudaFunction:
    def __init__(self, lib, name):
        self.setidx = getattr(lib, "__xo_set_idx")
        self.fn = getattr(lib, name)
        self.lib = lib
        self.name = name

    def __call__(self, grid, block, args, shared_mem=0):
        g, b = int(grid[0]), int(block[0])
        SCHED.launches.append(("cuda", self.name, g, b))
        cargs = [_conv(a) for a in args]
        self.fn.restype = None
        for k in SCHED.order(g * b, block=b):
            self.setidx(k // b, b, k % b, g)
            self.fn(*cargs)


class _RawModule:
    sources = []

    def __init__(self, code=None, **kw):
        _RawModule.sources.append(("cuda", code, None))
        self.lib = build_so("cuda", code)

    def get_function(self, name):
        return _CudaFunction(self.lib, name)


def make_fake_cupy():
    cp = types.SimpleNamespace()
    cp.RawModule = _RawModule
    cp.ndarray = np.ndarray
    cp.zeros = np.zeros
    cp.array = np.array
    cp.uint8 = np.uint8
    cp.cuda = types.SimpleNamespace(Device=lambda d: types.SimpleNamespace(use=lambda: None), get_device_id=lambda: 0)
    return cp


class installed:
    """Context manager: install the fakes into xobjects for the duration of a run."""

    def __enter__(self):
        import xobjects as xo

        self.mods = (xo.context_pyopencl, xo.context_cupy)
        self.old = (xo.context_pyopencl.cl, xo.context_pyopencl.cla, xo.context_cupy.cupy)
        cl, cla = make_fake_cl()
        xo.context_pyopencl.cl, xo.context_pyopencl.cla = cl, cla
        xo.context_cupy.cupy = make_fake_cupy()
        _CLProgram.sources = []
        _RawModule.sources = []
        SCHED.launches = []
        self.cl, self.cla = cl, cla
        return self

    def __exit__(self, *a):
        self.mods[0].cl, self.mods[0].cla, self.mods[1].cupy = self.old
        return False
