"""Engine D — DevSim, kernel mode (C16): generated annotated kernel programs run
on four targets — cpu_serial and cpu_openmp through the real ContextCpu (cffi),
opencl and cuda through the real ContextPyopencl / ContextCupy build and launch
code against a stub platform (sim/device.py) that executes the specialised text
on the host, one call per work-item, in an order the seeded scheduler decides.

This is the one place in xobjects where a genuine schedule space exists.

Program = 1-3 kernels; each kernel has 1-3 `//vectorize_over v n ...
//end_vectorize` blocks over the same limit; block bodies are work-item local
(index v only; a later block may chain through an earlier block's result at the
same index); a per-block hit counter; helper functions marked /*gpufun*/;
pointer arguments marked /*gpuglmem*/ and /*restrict*/; `//only_for_context`
lines that change the arithmetic; `//include_file f for_context <subset>` with
the file present, or absent when it names only contexts that are not built;
unannotated filler lines.

Oracles per launch: hit counter == launches so far for every index < n on every
target and guard cells around every array untouched; result arrays equal the
model's expectation for that target (which accounts for only_for_context lines
and includes); therefore identical across work-item orders.  Per build: included
text present exactly for the named contexts, restricted lines active exactly
there, every unannotated line verbatim and in order in each specialisation.
"""
import os

import numpy as np

from .core import RunResult, Viol, exc_sig
from . import seams, device

xo = seams.xo

TARGETS = ["cpu_serial", "cpu_openmp", "opencl", "cuda"]
GUARD = 8
GUARD_F = -777.0
GUARD_I = -777


# ------------------------------------------------------------------------------
# program generation


def gen_program(rng, tier):
    built = [t for t in TARGETS if rng.random() < 0.8]
    if len(built) < 2:
        built = rng.sample(TARGETS, 2)
    built = [t for t in TARGETS if t in built]
    uid = f"{os.getpid()}_{rng.getrandbits(40):x}"
    includes = []
    for k in range(rng.choice([0, 0, 1, 2])):
        ctxs = [t for t in TARGETS if rng.random() < 0.5] or [rng.choice(TARGETS)]
        includes.append({"file": f"xoinc_{uid}_{k}.h", "contexts": ctxs, "macro": f"XO_INC{k}", "value": rng.choice([1, 3, 5, 16]), "exists": True})
    notbuilt = [t for t in TARGETS if t not in built]
    if notbuilt and rng.random() < 0.5:
        # a file that does not exist, named only for contexts that are not being specialised
        includes.append({"file": f"xomissing_{uid}.h", "contexts": rng.sample(notbuilt, rng.randint(1, len(notbuilt))), "macro": None, "value": 0, "exists": False})
    helpers = []
    for k in range(rng.choice([0, 1, 1, 2])):
        helpers.append({"name": f"hf{k}", "mul": rng.choice([1, 2, 3]), "add": rng.choice([0, 1, 7]), "extra": _restricted(rng, [o for o in [_gen_op(rng, includes)] if o["op"] != "inc"])})
    # statement fragments kept in files of their own and spliced into block bodies, the same file
    # possibly in several places (a step applied twice, a fragment shared by two kernels)
    frags = [{"file": f"xofrag_{uid}_{k}.h", "c": rng.choice([3, 7, 11])} for k in range(rng.choice([0, 0, 1, 2]))]
    kernels = []
    for kk in range(rng.choice([1, 1, 2, 3])):
        blocks = []
        for b in range(rng.choice([1, 2, 2, 3])):
            ops = _restricted(rng, [_gen_op(rng, includes, helpers) for _ in range(rng.randint(1, 5))])
            for fi in range(len(frags)):
                while rng.random() < 0.5:
                    ops.insert(rng.randrange(len(ops) + 1), {"op": "frag", "f": fi, "ctx": [t for t in TARGETS if rng.random() < 0.7] or list(TARGETS)})
            blocks.append({"var": rng.choice(["ii", "jj", "tid", "ipart"]), "chain": b > 0 and rng.random() < 0.5, "ops": ops})
        lim = rng.choice(["n", "n", "n", "n-1", "n/2", "n-3"])
        if len(blocks) > 1 and rng.random() < 0.3:
            # one block runs over a smaller bound than the launch (segments between nodes: n-1 of n):
            # CPU loops to its own bound, CUDA guards each block with its own bound; the OpenCL form
            # has no guard at all, so such kernels are not launched on OpenCL (not claimed there)
            j = rng.randrange(len(blocks))
            blocks[j]["short"] = rng.choice([1, 1, 2, 5])
            if j + 1 < len(blocks):
                blocks[j + 1]["chain"] = False
        kernels.append({"name": f"kern{kk}", "limit": lim, "blocks": blocks, "filler": rng.sample(range(1000), rng.randint(0, 4)), "scalar": rng.choice([None, "Float64", "Int64"]), "restrict": rng.random() < 0.5})
    # control characters that str.splitlines() treats as line ends although they are ordinary C white
    # space / comment text (form feeds separate pages in GNU-style sources)
    ws = rng.choice(["\x0c", "\x0b", "\x1c", "\x1d", "\x1e"]) if rng.random() < 0.25 else None
    # the whole annotated text in an included file named for every context, the main source holding
    # only include lines and filler (annotations arrive through the splice, not in the text handed in)
    split = f"xobody_{uid}.h" if rng.random() < 0.2 and not frags else None  # (include lines inside an included file are not processed)
    return {"frags": frags, "split": split, "ws": ws, "built": built, "includes": includes, "helpers": helpers, "kernels": kernels, "omp": rng.choice([2, 2, "auto"]), "block_size": rng.choice([1, 2, 3, 4, 32, 33, 48, 100, 200, 256]), "nops": rng.choice([2, 4, 6, 10]) if tier == "quick" else rng.choice([6, 12, 20])}


def _gen_op(rng, includes, helpers=()):
    r = rng.random()
    usable = [i for i in includes if i["exists"]]
    if r < 0.15 and usable:
        inc = rng.choice(usable)
        return {"op": "inc", "inc": includes.index(inc), "ctx": list(inc["contexts"]) if rng.random() < 0.6 else rng.sample(inc["contexts"], rng.randint(1, len(inc["contexts"])))}
    if r < 0.35 and helpers:
        return {"op": "call", "h": rng.randrange(len(helpers)), "c": rng.choice([0, 1, 4]), "ctx": None}
    if r < 0.7:
        return {"op": "add", "c": rng.choice([1, 2, 5, 100]), "ctx": None}
    return {"op": "mul", "c": rng.choice([2, 3]), "ctx": None}


def _restricted(rng, ops):
    for o in ops:
        if o["op"] in ("add", "mul") and rng.random() < 0.4:
            k = rng.choice([1, 1, 2, 3])
            o["ctx"] = sorted(rng.sample(TARGETS, k), key=TARGETS.index)
    return ops


def render(prog):
    """Annotated source text + list of filler lines (verbatim pass-through oracle)."""
    L = []
    filler = []

    ws = prog.get("ws") or " "

    def fill(tag):
        line = f"/* unannotated filler {tag}: a = b*c{ws}+ d; x[i] */"
        L.append(line)
        filler.append(line)

    fill("top")
    for inc in prog["includes"]:
        L.append(f"//include_file {inc['file']} for_context {' '.join(inc['contexts'])}")
    head = None
    if prog.get("split"):
        L.append(f"//include_file {prog['split']} for_context {' '.join(TARGETS)}")
        fill("after_body")  # (moved behind the body below: order of the filler list = order in the text)
        tail_filler = filler.pop()
        head, L = L, []
    for h in prog["helpers"]:
        L.append(f"/*gpufun*/ double {h['name']}(double t, double c){{")
        L.append(f"  double r = t*{h['mul']}.0 + c + {h['add']}.0;")
        for o in h["extra"]:
            L.append("  " + _stmt(prog, o, "r"))
        L.append("  return r;")
        L.append("}")
        fill(h["name"])
    for k in prog["kernels"]:
        nb = len(k["blocks"])
        rq = "/*restrict*/" if k["restrict"] else ""
        args = ["const int n"]
        lim = k.get("limit", "n")
        if lim != "n":
            args.append("const int nlaunch")  # the number of work-items: the value of the limit expression
        if k["scalar"] == "Float64":
            args.append("const double sc")
        elif k["scalar"] == "Int64":
            args.append("const int64_t sc")
        args.append(f"/*gpuglmem*/ const double*{rq} x")
        for b in range(nb):
            args.append(f"/*gpuglmem*/ double*{rq} out{b}")
            args.append(f"/*gpuglmem*/ int32_t*{rq} hits{b}")
        L.append("/*gpukern*/")
        L.append(f"void {k['name']}({', '.join(args)}){{")
        for tag in k["filler"]:
            L.append(f"  int unused_{tag} = {tag}; (void) unused_{tag}; /* unannotated statement {tag} */")
            filler.append(L[-1])
            if tag % 3 == 0:
                # a complete one-line block comment with a // inside it (a URL), right above the blocks
                L.append(f"  /* see https://example.org/doc/{tag}#block for the derivation */")
                filler.append(L[-1])
        for b, blk in enumerate(k["blocks"]):
            v = blk["var"]
            blim = f"{lim}-{blk['short']}" if blk.get("short") else lim
            L.append(f"  for (int {v}=0; {v}<{blim}; {v}++){{ //vectorize_over {v} {blim}")
            src = f"out{b-1}[{v}]" if blk["chain"] else f"x[{v}]"
            L.append(f"    double t = {src};")
            if k["scalar"]:
                L.append("    t = t + (double) sc;")
            for o in blk["ops"]:
                L.append("    " + _stmt(prog, o, "t"))
            L.append(f"    out{b}[{v}] = t;")
            L.append(f"    hits{b}[{v}] += 1;")
            L.append("  }//end_vectorize")
            fill(f"{k['name']}_{b}")
        L.append("}")
    if head is not None:
        filler.append(tail_filler)
        return "\n".join(head) + "\n", filler, "\n".join(L) + "\n"
    return "\n".join(L) + "\n", filler, None


def _stmt(prog, o, var):
    tail = f" //only_for_context {' '.join(o['ctx'])}" if o.get("ctx") else ""
    if o["op"] == "add":
        return f"{var} = {var} + {o['c']}.0;{tail}"
    if o["op"] == "mul":
        return f"{var} = {var} * {o['c']}.0;{tail}"
    if o["op"] == "inc":
        return f"{var} = {var} + {prog['includes'][o['inc']]['macro']};{tail}"
    if o["op"] == "call":
        return f"{var} = {prog['helpers'][o['h']]['name']}({var}, {o['c']}.0);{tail}"
    if o["op"] == "frag":
        return f"//include_file {prog['frags'][o['f']]['file']} for_context {' '.join(o['ctx'])}"
    raise ValueError(o)


def model_apply(prog, ops, t, target):
    for o in ops:
        if o.get("ctx") and target not in o["ctx"]:
            continue
        if o["op"] == "add":
            t = t + o["c"]
        elif o["op"] == "mul":
            t = t * o["c"]
        elif o["op"] == "inc":
            t = t + prog["includes"][o["inc"]]["value"]
        elif o["op"] == "frag":
            t = t + prog["frags"][o["f"]]["c"]
        elif o["op"] == "call":
            h = prog["helpers"][o["h"]]
            r = t * h["mul"] + o["c"] + h["add"]
            t = model_apply(prog, h["extra"], r, target)
    return t


# ------------------------------------------------------------------------------


class DevArrays:
    """Per (target, kernel): x, out_b, hits_b with guard cells on both sides."""

    def __init__(self, target, nmax, nblocks, cla=None):
        self.target = target
        self.nmax = nmax
        self.cla = cla
        self.store = {}
        self.add("x", np.float64, GUARD_F)
        for b in range(nblocks):
            self.add(f"out{b}", np.float64, GUARD_F)
            self.add(f"hits{b}", np.int32, GUARD_I)

    def add(self, name, dt, guard):
        full = np.full(self.nmax + 2 * GUARD, guard, dtype=dt)
        if self.target == "opencl":
            buf = device.FakeBuffer(size=full.nbytes)
            buf.mem[:] = full.view(np.uint8)
            host = np.frombuffer(buf.mem, dtype=dt)
            arg = self.cla.Array(None, shape=(self.nmax,), dtype=dt, data=buf, offset=GUARD * np.dtype(dt).itemsize)
            self.store[name] = (host, arg)
        else:
            self.store[name] = (full, full[GUARD : GUARD + self.nmax])

    def host(self, name):
        return self.store[name][0]

    def arg(self, name):
        return self.store[name][1]

    def data(self, name):
        return self.host(name)[GUARD : GUARD + self.nmax]


class DevSim:
    name = "devsim"
    needs_scratch = True
    components = {
        "real": ["xobjects.specialize_source (all four targets)", "ContextCpu.add_kernels / KernelCpu.__call__ (serial and OpenMP, cffi + gcc)", "ContextPyopencl.build_kernels, KernelPyopencl.__call__ / to_function_arg (launch geometry (n,))", "ContextCupy.build_kernels, KernelCupy.__call__ / to_function_arg (grid = ceil(n/block))", "openclheader / cudaheader texts"],
        "stub": ["pyopencl and cupy modules replaced by in-process fakes (sim/device.py): Program.build / RawModule compile the specialised text on the host (gcc as C, g++ as C++) behind a shim defining the target keywords away; one host call per work-item in a seeded order; CUDA tail threads executed; device memory = numpy arrays; an empty launch is a no-op", "BufferPyopencl / BufferCupy are not run"],
    }
    not_claimed = {"C16": ["real OpenCL / CUDA compilers, drivers and memory; real OpenMP thread schedules (the library emits no parallel loop)", "out-of-bounds writes are observed through guard cells next to every array, not through a sanitizer"]}
    assumptions = {"C16": ["fidelity of the stub platform: a work-item is one call of the kernel function with get_global_id / blockIdx*blockDim+threadIdx set by the launcher", "block bodies are work-item local, so results must not depend on the order"]}

    def run(self, prop, profile, rng=None, replay=None, tier="quick"):
        res = RunResult()
        res.profile = profile
        if replay is not None:
            prog = replay["world"]
            oplist = list(replay["ops"])
        else:
            prog = gen_program(rng, tier)
            oplist = [self.gen_op(rng, prog) for _ in range(prog["nops"])]
        ops = []
        res.replay = {"world": prog, "ops": ops, "profile": profile, "engine": "devsim"}
        src, filler, body = render(prog)
        written = []
        old_info = xo.ContextCpu._compile_kernels_info
        xo.ContextCpu._compile_kernels_info = False
        try:
            for inc in prog["includes"]:
                if inc["exists"]:
                    with open(inc["file"], "w") as f:
                        f.write(f"/* XOINC marker {inc['macro']} */\n#define {inc['macro']} {inc['value']}.0\n")
                    written.append(inc["file"])
            for fr in prog.get("frags", []):
                with open(fr["file"], "w") as f:
                    f.write(f"t = t + {fr['c']}.0; /* spliced fragment */\n")
                written.append(fr["file"])
            if body is not None:
                with open(prog["split"], "w") as f:
                    f.write(body)
                written.append(prog["split"])
                res.fault("annotated_text_arrives_through_include")
            with device.installed() as fakes:
                self.fakes = fakes
                viols = self.build_all(prog, src, filler, res)
                res.log.append([0, "build", prog["built"], sorted({v.oracle for v in viols})])
                if viols:
                    res.viols = viols
                    res.viol_step = 0
                    return res
                for op in oplist:
                    if op["kernel"] >= len(prog["kernels"]) or op["target"] not in prog["built"]:
                        res.skipped += 1
                        continue
                    if op["target"] == "opencl" and any(b.get("short") for b in prog["kernels"][op["kernel"]]["blocks"]):
                        res.skipped += 1
                        continue
                    ops.append(op)
                    res.steps += 1
                    res.own_ops += 1
                    viols = self.launch(prog, op, res)
                    res.log.append([res.steps, "launch", op["kernel"], op["target"], op["n"], op["order"], sorted({v.oracle for v in viols})])
                    if viols:
                        res.viols = viols
                        res.viol_step = res.steps
                        break
        finally:
            xo.ContextCpu._compile_kernels_info = old_info
            for fn in written:
                try:
                    os.remove(fn)
                except OSError:
                    pass
        return res

    def gen_op(self, rng, prog):
        bs = prog["block_size"]
        n = rng.choice([0, 0, 1, 2, 3, bs - 1, bs, bs + 1, 2 * bs + 3, 5 * bs + 1, rng.randint(0, 40)])
        n = max(0, min(n, 700))
        return {"op": "launch", "kernel": rng.randrange(len(prog["kernels"])), "target": rng.choice(prog["built"]), "n": n, "order": [rng.choice(["identity", "reverse", "shuffle", "shuffle", "blockshuffle"]), rng.getrandbits(30)], "xseed": rng.getrandbits(30), "sc": rng.choice([0, 1, -3, 1000]), "cpu_zero_launch": rng.random() < 0.2}

    # -- building on every target through the real context code
    def descriptions(self, prog):
        out = {}
        for k in prog["kernels"]:
            args = [xo.Arg(xo.Int32, name="n")]
            if k.get("limit", "n") != "n":
                args.append(xo.Arg(xo.Int32, name="nlaunch"))
            if k["scalar"]:
                args.append(xo.Arg(getattr(xo, k["scalar"]), name="sc"))
            args.append(xo.Arg(xo.Float64, pointer=True, const=True, name="x"))
            for b in range(len(k["blocks"])):
                args.append(xo.Arg(xo.Float64, pointer=True, name=f"out{b}"))
                args.append(xo.Arg(xo.Int32, pointer=True, name=f"hits{b}"))
            out[k["name"]] = xo.Kernel(args=args, n_threads="n" if k.get("limit", "n") == "n" else "nlaunch")
        return out

    def build_all(self, prog, src, filler, res):
        viols = []

        def viol(oracle, sig, detail):
            viols.append(Viol("C16", oracle, [str(s) for s in sig], detail))

        self.ctx = {}
        self.spec = {}
        self.arrays = {}
        self.calls = {}
        for t in prog["built"]:
            try:
                if t == "cpu_serial":
                    c = xo.ContextCpu(omp_num_threads=0)
                    c.add_kernels(sources=[src], kernels=self.descriptions(prog), extra_compile_args=("-O0", "-Wno-unused-function"), extra_link_args=("-O0",))
                elif t == "cpu_openmp":
                    c = xo.ContextCpu(omp_num_threads=prog["omp"])
                    c.add_kernels(sources=[src], kernels=self.descriptions(prog), extra_compile_args=("-O0", "-Wno-unused-function"), extra_link_args=("-O0",))
                elif t == "opencl":
                    c = xo.ContextPyopencl(patch_pyopencl_array=False, minimum_alignment=1)
                    c.add_kernels(sources=[src], kernels=self.descriptions(prog))
                else:
                    c = xo.ContextCupy(default_block_size=prog["block_size"])
                    c.add_kernels(sources=[src], kernels=self.descriptions(prog))
            except Exception as e:
                viol("build_failed", [t, exc_sig(e)], f"{t}: {type(e).__name__}: {str(e)[-1200:]}")
                return viols
            self.ctx[t] = c
            res.probe("built_" + t)
            spec = c.kernels[prog["kernels"][0]["name"]].specialized_source
            self.spec[t] = spec
            # -- textual oracles on the specialisation
            pos = 0
            for line in filler:
                j = spec.find(line, pos)
                if j < 0:
                    viol("unannotated_text_changed", [t], f"line {line!r} not found verbatim (in order) in the {t} specialisation")
                    return viols
                pos = j + len(line)
            for inc in prog["includes"]:
                if not inc["exists"]:
                    res.fault("enoent_other")
                    continue
                present = f"XOINC marker {inc['macro']}" in spec
                if present != (t in inc["contexts"]):
                    viol("include_spliced_for_wrong_context", [t, "present" if present else "absent"], f"{inc['file']} named for {inc['contexts']} is {'present' if present else 'absent'} in the {t} specialisation")
                    return viols
            for k in prog["kernels"]:
                for blk in k["blocks"]:
                    for o in blk["ops"]:
                        if o.get("ctx") and o["op"] != "frag":
                            st = _stmt(prog, o, "t")
                            active = any(l.strip() == st for l in spec.splitlines())
                            commented = ("//" + "    " + st) in spec or any(l.strip().startswith("//") and st in l for l in spec.splitlines())
                            if active != (t in o["ctx"]):
                                viol("restricted_line_active_in_wrong_context", [t, "active" if active else "inactive"], f"{st!r} is {'active' if active else 'inactive'} in the {t} specialisation")
                                return viols
                            if t not in o["ctx"] and not commented:
                                viol("restricted_line_vanished", [t], f"{st!r}")
                                return viols
        nmax = 700 + 8
        for t in prog["built"]:
            for k in prog["kernels"]:
                self.arrays[(t, k["name"])] = DevArrays(t, nmax, len(k["blocks"]), self.fakes.cla)
                self.calls[(t, k["name"])] = np.zeros(nmax, dtype=np.int64)
        return viols

    # -- one launch
    def launch(self, prog, op, res):
        viols = []

        def viol(oracle, sig, detail):
            viols.append(Viol("C16", oracle, [str(s) for s in sig], detail))

        t = op["target"]
        k = prog["kernels"][op["kernel"]]
        nargs = op["n"]
        lim = k.get("limit", "n")
        n = {"n": nargs, "n-1": nargs - 1, "n/2": nargs // 2, "n-3": nargs - 3}[lim]
        if n < 0:
            nargs = {"n-1": 1, "n-3": 3}[lim] + nargs
            n = {"n-1": nargs - 1, "n-3": nargs - 3}[lim]
        A = self.arrays[(t, k["name"])]
        cnt = self.calls[(t, k["name"])]
        r = np.random.RandomState(op["xseed"])
        x = A.data("x")
        x[:n] = r.randint(-50, 50, size=n).astype(np.float64)
        device.SCHED.kind, device.SCHED.seed = op["order"]
        device.SCHED.launches = []
        res.fault("launch_order_" + op["order"][0])
        kw = {"n": nargs, "x": A.arg("x")}
        if lim != "n":
            kw["nlaunch"] = n
            res.probe("limit_is_an_expression")
            if op.get("cpu_zero_launch") and t.startswith("cpu") and n > 0:
                # the argument named as n_threads is 0 while the blocks run over a limit of their own
                # (another argument): a CPU loop runs to its limit whatever the launch size says
                kw["nlaunch"] = 0
                res.probe("cpu_launch_size_zero_with_own_limit")
        if k["scalar"]:
            kw["sc"] = op["sc"]
        for b in range(len(k["blocks"])):
            kw[f"out{b}"] = A.arg(f"out{b}")
            kw[f"hits{b}"] = A.arg(f"hits{b}")
        before = {name: A.host(name).copy() for name in A.store}
        try:
            self.ctx[t].kernels[k["name"]](**kw)
        except Exception as e:
            viol("launch_raised", [t, exc_sig(e)], f"{t} {k['name']} n={n}: {type(e).__name__}: {e}")
            return viols
        bs = prog["block_size"]
        res.features.add(f"{t}:n{'0' if n == 0 else '1' if n == 1 else 'lt' if n < bs else 'eq' if n == bs else 'mult' if n % bs == 0 else 'tail'}:{op['order'][0]}:b{len(k['blocks'])}")
        if n == 0:
            res.probe("empty_launch")
        if t == "cuda":
            geo = [g for g in device.SCHED.launches if g[0] == "cuda"]
            if geo and geo[-1][2] * geo[-1][3] > n:
                res.probe("cuda_tail_threads_existed", geo[-1][2] * geo[-1][3] - n)
            if geo and geo[-1][2] > 1:
                res.probe("cuda_multiple_blocks")
        cnt[:n] += 1
        # expected
        tvec = None
        outs = []
        for b, blk in enumerate(k["blocks"]):
            base = outs[b - 1] if blk["chain"] else x[:n].copy()
            tv = base.copy()
            if k["scalar"]:
                tv = tv + float(op["sc"])
            tv = model_apply(prog, blk["ops"], tv, t)
            outs.append(tv)
        nlaunch = n
        for b in range(len(k["blocks"])):
            # (a block with a bound of its own below the launch size)
            n = max(0, nlaunch - k["blocks"][b].get("short", 0))
            outs[b] = outs[b][:n]
            if n != nlaunch:
                res.probe("block_bound_below_launch_size")
            hits = A.data(f"hits{b}")
            want_hits = before[f"hits{b}"][GUARD : GUARD + A.nmax].copy()
            want_hits[:n] += 1
            if not np.array_equal(hits, want_hits):
                j = int(np.nonzero(hits != want_hits)[0][0])
                viol("block_not_run_exactly_once_per_index", [t, "index<n" if j < n else "index>=n", "more" if hits[j] > want_hits[j] else "fewer"], f"{t} {k['name']} block {b} n={n} block_size={bs} order={op['order'][0]}: index {j} executed {int(hits[j] - before[f'hits{b}'][GUARD + j])} times in this launch (expected {1 if j < n else 0})")
                return viols
            out = A.data(f"out{b}")
            if not np.array_equal(out[:n], outs[b]):
                j = int(np.nonzero(out[:n] != outs[b])[0][0])
                viol("result_differs_from_model", [t], f"{t} {k['name']} block {b} n={n}: out[{j}]={out[j]!r}, expected {outs[b][j]!r} (x={x[j]!r}); active lines for {t}: {[_stmt(prog, o, 't') for o in blk['ops'] if not o.get('ctx') or t in o['ctx']]}")
                return viols
            if not np.array_equal(out[n:], before[f"out{b}"][GUARD + n : GUARD + A.nmax]):
                viol("write_beyond_n", [t], f"{t} {k['name']} block {b} n={n}: out[{n}:] changed")
                return viols
        for name in A.store:
            h = A.host(name)
            if not (np.array_equal(h[:GUARD], before[name][:GUARD]) and np.array_equal(h[GUARD + A.nmax :], before[name][GUARD + A.nmax :])):
                viol("guard_cells_overwritten", [t, name.rstrip("0123456789")], f"{t} {k['name']} n={n}: guard cells of {name} changed")
                return viols
        if not np.array_equal(A.host("x"), before["x"]):
            viol("input_array_modified", [t], f"{t} {k['name']} n={n}")
        return viols
