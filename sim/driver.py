"""Batch driver: runs one property's check (seeded search over many simulated
runs), minimises and reports violations, honours known findings, writes
evidence.  Exit codes: 0 held / 1 violation / 2 harness error."""
import os
import sys
import json
import time
import hashlib
import subprocess

from . import core
from .core import VERIF_DIR

# property -> configuration.  quick_runs is a fixed count (so that a quick run
# is the same set of seeds every time); thorough runs until the wall budget.
PROPS = {
    "C04": dict(engine="bufsim", profiles=["faultfree", "faultfree", "alloc_fail", "deep", "faultfree", "alloc_fail"], quick_runs=90000, slice=500, thorough_s=600, fit="native"),
    "C12": dict(engine="bufsim", profiles=["faultfree", "faultfree", "deep", "faultfree", "alloc_fail"], quick_runs=90000, slice=500, thorough_s=600, fit="native"),
    "C13": dict(engine="bufsim", profiles=["primitives", "primitives", "primitives", "faultfree", "primitives", "large"], quick_runs=60000, slice=400, thorough_s=600, fit="seam"),
    "C01": dict(engine="objsim", profiles=["construct", "construct", "construct", "copies"], quick_runs=6000, slice=60, thorough_s=600, fit="seam"),
    "C03": dict(engine="objsim", profiles=["neighbours", "neighbours", "assign", "construct"], quick_runs=6000, slice=60, thorough_s=600, fit="seam"),
    "C05": dict(engine="objsim", profiles=["construct", "assign", "refs", "copies", "neighbours"], quick_runs=6000, slice=60, thorough_s=600, fit="weak"),
    "C06": dict(engine="objsim", profiles=["two_handles", "two_handles", "construct", "assign"], quick_runs=6000, slice=60, thorough_s=600, fit="seam"),
    "C08": dict(engine="objsim", profiles=["refs"], quick_runs=6000, slice=60, thorough_s=600, fit="native"),
    "C09": dict(engine="objsim", profiles=["copies"], quick_runs=6000, slice=60, thorough_s=600, fit="seam"),
    "C11": dict(engine="objsim", profiles=["misuse"], quick_runs=6000, slice=60, thorough_s=600, fit="native"),
    "C20": dict(engine="hybridsim", profiles=["restart", "restart", "hybrid_restart", "restart", "restart", "hybrid_restart", "restart", "c_restart"], quick_runs=4000, slice=60, thorough_s=600, fit="native"),
    "C10": dict(engine="objsim", profiles=["assign", "assign", "two_handles", "refs"], quick_runs=6000, slice=60, thorough_s=600, fit="native"),
    "C02": dict(engine="capisim", profiles=["c_readers", "c_readers", "c_readers_refs", "c_writers"], quick_runs=1600, slice=20, thorough_s=600, fit="weak", run_timeout=300),
    "C18": dict(engine="hybridsim", profiles=["hybrid", "hybrid", "hybrid_moves", "hybrid_restart"], quick_runs=5000, slice=50, thorough_s=600, fit="native"),
    "C19": dict(engine="hybridsim", profiles=["hybrid_dict", "hybrid_dict", "json"], quick_runs=5000, slice=50, thorough_s=300, fit="weak"),
    "C15": dict(engine="accsim", profiles=["accessors"], quick_runs=1200, slice=10, thorough_s=900, fit="weak", run_timeout=300),
    "C16": dict(engine="devsim", profiles=["kernels"], quick_runs=1600, slice=10, thorough_s=900, fit="native", run_timeout=180),
    "C14": dict(engine="depsim", profiles=["builds"], quick_runs=1200, slice=20, thorough_s=600, fit="weak", run_timeout=180),
    "C17": dict(engine="capisim", profiles=["c_calls"], quick_runs=1600, slice=20, thorough_s=600, fit="seam", run_timeout=300),
    "C07": dict(engine="capisim", profiles=["c_writers", "c_writers", "sanitize", "c_writers", "c_readers_refs", "sanitize"], quick_runs=1200, slice=20, thorough_s=900, fit="weak", run_timeout=300),
}

_ENGINES = {}


def get_engine(name):
    if name not in _ENGINES:
        if name == "bufsim":
            from .bufsim import BufSim

            _ENGINES[name] = BufSim()
        elif name == "objsim":
            from .objsim import ObjSim

            _ENGINES[name] = ObjSim()
        elif name == "capisim":
            from .capisim import CApiSim

            _ENGINES[name] = CApiSim()
        elif name == "accsim":
            from .accsim import AccSim

            _ENGINES[name] = AccSim()
        elif name == "depsim":
            from .depsim import DepSim

            _ENGINES[name] = DepSim()
        elif name == "hybridsim":
            from .hybridsim import HybridSim

            _ENGINES[name] = HybridSim()
        elif name == "devsim":
            from .devsim import DevSim

            _ENGINES[name] = DevSim()
        else:
            raise KeyError(name)
        if getattr(_ENGINES[name], "needs_scratch", False):
            core.enter_scratch()
    return _ENGINES[name]


def one_run(prop, seed, index, tier, want_replay=False):
    cfg = PROPS[prop]
    eng = get_engine(cfg["engine"])
    profile = cfg["profiles"][index % len(cfg["profiles"])]
    rng = core.run_rng(seed, prop, eng.name, index)
    res = eng.run(prop, profile, rng=rng, tier=tier)
    res.index = index
    return res.to_wire(prop, want_replay)


def replay_run(prop, rep):
    cfg = PROPS[prop]
    eng = get_engine(rep.get("engine", cfg["engine"]))
    res = eng.run(prop, rep.get("profile"), replay=rep, tier="quick")
    return res


def _matches(res, prop, oracle, sig):
    for v in res.viols:
        if v.prop == prop and v.oracle == oracle and v.sig == sig:
            return True
    return False


def minimise(prop, rep, oracle, sig, budget_s):
    """ddmin over ops, then drop fault-plan entries; keeps (oracle, signature)."""

    def test(ops):
        cand = dict(rep)
        cand["ops"] = ops
        try:
            r = replay_run(prop, cand)
        except Exception:
            return False
        return _matches(r, prop, oracle, sig)

    t0 = time.time()
    ops = core.ddmin(rep["ops"], test, budget_s)
    out = dict(rep)
    out["ops"] = ops
    # fault plan entries
    world = json.loads(json.dumps(rep["world"]))
    for key in ("fail_newbuf_at", "relocate_at"):
        plan = world.get(key)
        if not plan:
            continue
        for b in list(plan):
            entries = plan[b]
            items = list(entries.items()) if isinstance(entries, dict) else list(entries)
            for it in list(items):
                if time.time() - t0 > budget_s * 1.5:
                    break
                trial = [x for x in items if x != it]
                plan[b] = dict(trial) if isinstance(entries, dict) else trial
                cand = dict(out)
                cand["world"] = world
                try:
                    ok = _matches(replay_run(prop, cand), prop, oracle, sig)
                except Exception:
                    ok = False
                if ok:
                    items = trial
                else:
                    plan[b] = dict(items) if isinstance(entries, dict) else items
    out["world"] = world
    # the engine may offer further operand simplification
    eng = get_engine(out.get("engine", PROPS[prop]["engine"]))
    if hasattr(eng, "simplify"):
        try:
            out = eng.simplify(prop, out, lambda c: _matches(replay_run(prop, c), prop, oracle, sig), t0 + budget_s * 2)
        except Exception:
            pass
    return out


def write_replay(prop, rep, viol, seed, index, tag=""):
    d = os.path.join(os.environ.get("VERIF_REPLAY_DIR", os.path.join(VERIF_DIR, "replays")), prop)
    os.makedirs(d, exist_ok=True)
    body = {
        "format": core.FORMAT,
        "property": prop,
        "engine": rep.get("engine", PROPS[prop]["engine"]),
        "profile": rep.get("profile"),
        "seed": seed,
        "index": index,
        "world": rep["world"],
        "ops": rep["ops"],
        "expect": {"oracle": viol["oracle"], "signature": viol["signature"]},
        "detail": viol.get("detail", ""),
    }
    for k in rep:
        if k not in body and k not in ("world", "ops"):
            body[k] = rep[k]
    h = hashlib.sha256(core.canon([viol["oracle"], viol["signature"]]).encode()).hexdigest()[:10]
    path = os.path.join(d, f"{viol['oracle']}-{h}{tag}.json")
    with open(path, "w") as f:
        json.dump(body, f, indent=1, sort_keys=True, default=core._json_default)
    return path


def fresh_replay(prop, path, timeout=300):
    """Replay in a fresh interpreter; returns (exit code, stdout)."""
    env = dict(os.environ)
    p = subprocess.run([sys.executable, os.path.join(VERIF_DIR, "check.py"), prop, "--replay", path], capture_output=True, text=True, timeout=timeout, env=env, cwd=VERIF_DIR)
    return p.returncode, p.stdout + p.stderr


def cmd_minimise(prop, raw_path, budget_s):
    """Minimise a raw replay file (own process; see cmd_check)."""
    with open(raw_path) as f:
        body = json.load(f)
    exp = body["expect"]
    small = minimise(prop, body, exp["oracle"], exp["signature"], budget_s)
    v = {"oracle": exp["oracle"], "signature": exp["signature"], "detail": body.get("detail", "")}
    # keep the detail of the minimised run
    try:
        r = replay_run(prop, small)
        for x in r.viols:
            if x.prop == prop and x.oracle == exp["oracle"] and x.sig == exp["signature"]:
                v["detail"] = str(x.detail)[:2000]
    except Exception:
        pass
    mpath = write_replay(prop, small, v, body.get("seed"), body.get("index"))
    print("MINIMISED " + mpath)
    return 0


def cmd_replay(prop, path):
    with open(path) as f:
        rep = json.load(f)
    res = replay_run(prop, rep)
    exp = rep.get("expect", {})
    own = [v for v in res.viols if v.prop == prop]
    same = [v for v in own if v.oracle == exp.get("oracle") and v.sig == exp.get("signature")]
    if same:
        print(f"VIOLATION property={prop} replay={path}")
        print(f"  oracle={same[0].oracle} signature={same[0].sig}")
        print(f"  detail={same[0].detail}")
        return 1
    if own:
        print(f"VIOLATION property={prop} replay={path}")
        print(f"  note=different signature than recorded: oracle={own[0].oracle} signature={own[0].sig}")
        print(f"  detail={own[0].detail}")
        return 1
    other = sorted({v.prop for v in res.viols})
    print(f"replay of {path}: property {prop} held" + (f" (foreign divergence: {other})" if other else "") + f"; steps={res.steps} skipped={res.skipped}")
    return 0


def known_for(prop):
    k = core.load_known()
    return [f for f in k.get("findings", []) if f.get("property") == prop]


def cmd_check(prop, tier, seed, budget_s=None, workers=None, max_runs=None):
    cfg = PROPS[prop]
    eng = get_engine(cfg["engine"])
    t0 = time.time()
    workers = workers or int(os.environ.get("VERIF_WORKERS", os.cpu_count() or 4))
    if tier == "quick":
        n_runs = max_runs or int(os.environ.get("VERIF_RUNS", cfg["quick_runs"]))
        budget = budget_s or float(os.environ.get("VERIF_BUDGET_S", cfg.get("quick_s", 150)))
    else:
        n_runs = max_runs or int(os.environ.get("VERIF_RUNS", 10**9))
        budget = budget_s or float(os.environ.get("VERIF_BUDGET_S", cfg["thorough_s"]))
    deadline = t0 + budget
    print(f"[{prop}] engine={eng.name} tier={tier} VERIF_SEED={seed} workers={workers} repo={core.REPO}", flush=True)

    known = known_for(prop)
    known_keys = {core.canon([f["property"], f["signature"]["oracle"], f["signature"]["signature"]]): f for f in known}

    def fn(i):
        return one_run(prop, seed, i, tier, want_replay=(i < 3))

    agg = dict(evals=0, steps=0, faults={}, probes={}, profiles={}, foreign={}, errors=[], obs=[])
    features = set()
    nontrivial = set()
    groups = {}  # viol key -> (index, viol json, replay)
    samples = []
    first_i, last_i = None, None
    slow = []
    rt = int(os.environ.get("VERIF_RUN_TIMEOUT", cfg.get("run_timeout", 180)))

    def results():
        yield from core.pool_run(fn, range(n_runs), workers, cfg["slice"], deadline, per_run_timeout=rt)
        # a run that overran its wall-clock cap (a loaded machine, not a verdict) is repeated once,
        # a few at a time, with four times the cap; only if it overruns again is it reported
        if slow:
            agg["retried_after_timeout"] = len(slow)
            yield from core.pool_run(fn, list(slow), min(4, workers), 1, time.time() + rt * 8, per_run_timeout=rt * 4)

    for d in results():
        if d.get("hang") and d.get("i") not in slow and len(slow) < 16:
            slow.append(d["i"])
            continue
        if d.get("error"):
            agg["errors"].append((d.get("i"), d["error"]))
            continue
        agg["evals"] += 1
        i = d["i"]
        first_i = i if first_i is None else min(first_i, i)
        last_i = i if last_i is None else max(last_i, i)
        agg["steps"] += d["steps"]
        agg["profiles"][d["profile"]] = agg["profiles"].get(d["profile"], 0) + 1
        for k, v in d["faults"].items():
            agg["faults"][k] = agg["faults"].get(k, 0) + v
        for k, v in d["probes"].items():
            agg["probes"][k] = agg["probes"].get(k, 0) + v
        if len(features) < 3_000_000:
            features.update(d["features"])
        if d["own_ops"] > 0 and d["faults"]:
            nontrivial.add(d["digest"])
        for p in d.get("foreign", []):
            agg["foreign"][p] = agg["foreign"].get(p, 0) + 1
        for o in d.get("obs", []):
            if len(agg["obs"]) < 20:
                agg["obs"].append(o)
        if i < 3 and d.get("replay"):
            samples.append({"index": i, "profile": d["profile"], "world": d["replay"]["world"], "ops": d["replay"]["ops"][:40], "ops_total": len(d["replay"]["ops"])})
        for v in d["viol"]:
            key = core.canon([v["property"], v["oracle"], v["signature"]])
            if key not in groups or groups[key][0] > i:
                groups[key] = (i, v, d["replay"])
    wall_search = time.time() - t0

    # ---- known findings: replay each stored file
    known_confirmed = 0
    for f in known:
        path = os.path.join(VERIF_DIR, f["replay"])
        try:
            with open(path) as fh:
                rep = json.load(fh)
            r = replay_run(prop, rep)
            ok = _matches(r, prop, f["signature"]["oracle"], f["signature"]["signature"])
        except Exception as e:
            ok = False
            agg["errors"].append((None, f"known finding {f['id']} replay failed: {e!r}"))
        if ok:
            known_confirmed += 1
            print(f"KNOWN-FINDING: property={prop} {f['what_fails']} [id={f['id']} replay={f['replay']}]")
        else:
            print(f"note: known finding {f['id']} no longer reproduces on this tree")

    # ---- new violations
    nviol = 0
    reported = 0
    mbudget = 30 if tier == "quick" else 120
    for key, (i, v, rep) in sorted(groups.items(), key=lambda kv: kv[1][0]):
        if key in known_keys:
            continue
        nviol += 1
        if reported >= int(os.environ.get("VERIF_MAX_REPORTS", 4)):
            continue
        reported += 1
        rep = dict(rep)
        rep.setdefault("engine", cfg["engine"])
        raw_path = write_replay(prop, rep, v, seed, i, tag=".raw")
        path = raw_path
        try:
            # minimisation replays the history many times against code that has just been shown to
            # misbehave (it may even corrupt memory through generated C): it runs in its own process
            mpath = None
            try:
                p = subprocess.run([sys.executable, os.path.join(VERIF_DIR, "check.py"), prop, "--minimise", raw_path, "--budget", str(mbudget)], capture_output=True, text=True, timeout=mbudget * 6 + 120, cwd=VERIF_DIR)
                got = [l for l in p.stdout.splitlines() if l.startswith("MINIMISED ")]
                if p.returncode == 0 and got:
                    mpath = got[0][10:].strip()
                else:
                    agg["notes"] = agg.get("notes", []) + [f"minimisation of run {i} ended with exit {p.returncode}; reporting the unminimised file"]
            except subprocess.TimeoutExpired:
                agg["notes"] = agg.get("notes", []) + [f"minimisation of run {i} timed out; reporting the unminimised file"]
            if mpath:
                code, out = fresh_replay(prop, mpath)
                if code == 1 and "VIOLATION" in out:
                    path = mpath
                    os.remove(raw_path)
                else:
                    agg["errors"].append((i, f"minimised replay did not reproduce in a fresh interpreter (exit {code}); reporting the unminimised file"))
                    mpath = None
            if not mpath:
                code, out = fresh_replay(prop, raw_path)
                if code < 0 or code > 2:
                    print(f"  note=replaying this file ends the interpreter with status {code} (memory corrupted by the code under test)")
                elif not (code == 1 and "VIOLATION" in out):
                    agg["errors"].append((i, f"unminimised replay did not reproduce (exit {code}): {out[-500:]}"))
        except Exception as e:
            agg["errors"].append((i, f"minimisation failed: {e!r}"))
        print(f"VIOLATION property={prop} replay={path}")
        print(f"  seed={seed} run={i} oracle={v['oracle']} signature={v['signature']}")
        print(f"  detail={v['detail'][:600]}")

    wall = time.time() - t0
    evals = agg["evals"]
    coverage = {
        "evaluations": evals,
        "distinct_nontrivial": len(nontrivial),
        "rule": "each evaluation is one simulated run (seeded world + seeded history of operations and injected faults, reference model compared after every step) drawn from random.Random(f'{VERIF_SEED}/{property}/{engine}/{index}'); a run counts as non-trivial when its history contains at least one operation of the property's own kind and at least one fault/environment event actually fired; distinct = distinct SHA-256 digests of the full event log",
        "samples": samples[:3] or [{"note": "no sample captured"}],
        "exhaustive": False,
        "steps_total": agg["steps"],
        "simulated_time": "xobjects has no clock; simulated time is reported as steps_total",
        "runs_per_hour": int(evals / max(wall_search, 1e-6) * 3600),
        "seeds": {"VERIF_SEED": seed, "first_run_index": first_i, "last_run_index": last_i},
        "faults_fired": agg["faults"],
        "probes": agg["probes"],
        "probes_at_zero": sorted(p for p in getattr(eng, "expected_probes", {}).get(prop, []) if agg["probes"].get(p, 0) == 0),
        "distinct_states": {"features": len(features)},
        "foreign_divergences": agg["foreign"],
        "known_findings_confirmed": known_confirmed,
        "profiles": agg["profiles"],
        "components": getattr(eng, "components", {}),
        "technique_fit": cfg["fit"],
        "not_claimed_clauses": getattr(eng, "not_claimed", {}).get(prop, []),
        "outside_quantifier_observations": agg["obs"],
        "harness_errors": len(agg["errors"]),
        "runs_repeated_after_wall_clock_cap": agg.get("retried_after_timeout", 0),
        "workers": workers,
    }
    extra = getattr(eng, "coverage_extra", None)
    if extra:
        coverage.update(extra(prop, features))
    core.write_evidence(prop, tier, seed, coverage, wall, nviol, getattr(eng, "assumptions", {}).get(prop, []) or ["reference model and oracles are written from the property statement and the architecture documents"])
    print(f"[{prop}] runs={evals} steps={agg['steps']} distinct_nontrivial={len(nontrivial)} features={len(features)} violations={nviol} known={known_confirmed} errors={len(agg['errors'])} wall={wall:.1f}s ({coverage['runs_per_hour']} runs/h)", flush=True)
    if agg["errors"]:
        for i, e in agg["errors"][:5]:
            print(f"HARNESS-ERROR run={i}: {e}", file=sys.stderr)
    if nviol:
        return 1
    if agg["errors"] or evals == 0:
        return 2
    return 0
