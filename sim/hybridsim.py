"""Engine E — HybridSim (C18, C19; hybrid half of C20): an ObjSim world in which
some struct types are declared through xo.HybridClass and objects of those types
are created, written, copied, moved and rebuilt through the dressing layer.

The dressing layer keeps a second, Python-side copy of nested objects
(`_dressed_<field>`); the simulator treats the dressed object and its
`_xobject` as two handles of the same storage.  After *every* step, for every
live dressed object and every field, recursively:

    getattr(h, pyname)  ==  getattr(h._xobject, xoname)  ==  model

and every nested dressed part sits exactly where the parent's buffer data says
it is.  The generic ObjSim operations (writes through the raw xobject, growth,
relocation, fragmentation, dirty reuse, raw views) run interleaved, so "always
reflect the underlying buffer data" is checked against writers the dressing
layer does not see.
"""
import numpy as np

from .core import exc_sig, quarantined
from . import seams, typegen, model as M, objsim
from .objsim import pick_buf, ObjSim, ObjWorld, Step, GenSource, Skip, Obj, read_handle, typereg
from .layout import DecodeError, c_indices

xo = seams.xo

_W = dict(construct=4, set_leaf=8, set_compound=3, bind=0, copy=2, drop=2, raw=4, grow=8, misuse=0, restart=0, json=0, h_construct=22, h_set=26, h_copy=8, h_move=7, h_dict=0, h_restart=0)
objsim.PROFILES.update(
    {
        "hybrid": dict(w=dict(_W)),
        "hybrid_moves": dict(w=dict(_W, h_move=18, h_copy=14)),
        "hybrid_dict": dict(w=dict(_W, h_dict=24, h_move=3)),
        "hybrid_restart": dict(w=dict(_W, h_restart=16, h_move=3), force_p=dict(cold_restart=0.15)),
    }
)
for k_ in ("h_construct", "h_set", "h_copy", "h_move"):
    objsim.OP_PROP[k_] = "C18"
    objsim.TAG_OTHER[k_] = "C18"
    objsim.TAG_OUT[k_] = "C18"
    objsim.STEP_PROP[k_] = "C18"
objsim.OP_PROP["h_dict"] = "C19"
objsim.TAG_OTHER["h_dict"] = "C19"
objsim.TAG_OUT["h_dict"] = "C19"
objsim.STEP_PROP["h_dict"] = "C19"
objsim.OP_PROP["h_restart"] = "C20"
objsim.TAG_OTHER["h_restart"] = "C20"
objsim.TAG_OUT["h_restart"] = "C20"
objsim.STEP_PROP["h_restart"] = "C20"
objsim.INPLACE_KINDS.add("h_set")
objsim.LAYOUT_PROP["h_set"] = "C18"
objsim.OWN_OPS["C18"] = ("h_construct", "h_set", "h_copy", "h_move")
objsim.OWN_OPS["C19"] = ("h_dict", "json_rebuild")
objsim.OWN_OPS["C20"] = ("restart", "h_restart")


# ------------------------------------------------------------------------------
# schema


def gen_hybrid_schema(rng, sw):
    schema = []
    idx_sc = []
    for s in rng.sample(typegen.SCALARS, rng.choice([2, 3, 4])):
        schema.append({"k": "sc", "t": s})
        idx_sc.append(len(schema) - 1)
    idx_str = None
    if sw.get("strings"):
        schema.append({"k": "str"})
        idx_str = len(schema) - 1
    idx_arr = []
    names = set()
    for _ in range(rng.choice([1, 2, 3])):
        item = rng.choice(idx_sc)
        nd = rng.choice([1, 1, 1, 2, 2, 3]) if sw.get("nd") else 1
        shape = [None if (sw.get("dyn_shape") and rng.random() < 0.5) else rng.choice([1, 2, 3, 4]) for _ in range(nd)]
        order = list(range(nd))
        if nd > 1 and sw.get("orders") and rng.random() < 0.4:
            rng.shuffle(order)
        name = f"Arr{typegen.sugar_suffix(shape)}{typegen.type_name(schema, item)}"
        decl = "sugar"
        if name in names or order != list(range(nd)) and False:
            continue
        if order != list(range(nd)):
            decl = "class"
            name = f"A{len(schema)}"
        names.add(name)
        schema.append({"k": "array", "name": name, "item": item, "shape": shape, "order": order, "decl": decl, "order_decl": None})
        idx_arr.append(len(schema) - 1)
    hyb = []
    nh = rng.randint(2, 5)
    for j in range(nh):
        nf = rng.choice([1, 2, 3, 3, 4, 5])
        fields = []
        for q in range(nf):
            r = rng.random()
            # (parts that hold references are deeper by the reference's target: admitted separately)
            nestable = [h for h in hyb if typegen.depth(schema, h) <= 2 or (sw.get("nested_refs") and typegen.has_refs(schema, h) and typegen.depth(schema, h) <= 4)]
            refparts = [h for h in nestable if typegen.has_refs(schema, h)] if sw.get("nested_refs") and sw.get("nested") else []
            if q == 0 and refparts and rng.random() < 0.6:
                ft = rng.choice(refparts)  # a nested part that holds a reference
            elif (r < 0.15 or (q == 0 and sw.get("chain") and rng.random() < 0.6)) and nestable and sw.get("nested"):
                ft = nestable[-1] if sw.get("chain") and rng.random() < 0.7 else rng.choice(nestable)
            elif r < 0.30 and hyb and sw.get("refs"):
                to = rng.choice(hyb)
                exist = [i for i, ty in enumerate(schema) if ty["k"] == "ref" and ty["to"] == to]
                if exist:
                    ft = exist[0]
                else:
                    schema.append({"k": "ref", "to": to})
                    ft = len(schema) - 1
            elif r < 0.55 and idx_arr:
                ft = rng.choice(idx_arr)
            elif r < 0.65 and idx_str is not None:
                ft = idx_str
            else:
                ft = rng.choice(idx_sc)
            f = [f"f{q}", ft]
            if schema[ft]["k"] == "sc" and sw.get("defaults"):
                r2 = rng.random()
                if r2 < 0.35:
                    f.append({"default": typegen._small_scalar(rng, schema[ft]["t"])})
                elif r2 < 0.5:
                    f.append({"default_factory": typegen._small_scalar(rng, schema[ft]["t"])})
            fields.append(f)
        rename = {}
        if sw.get("rename") and rng.random() < 0.6:
            for f in rng.sample(fields, min(len(fields), rng.choice([1, 1, 2]))):
                rename[f[0]] = ("_" + f[0]) if rng.random() < 0.3 else (f[0] + "_py")
        schema.append({"k": "struct", "name": f"H{j}Data", "hname": f"H{j}", "hybrid": True, "fields": fields, "rename": rename, "decl": "hybrid"})
        hyb.append(len(schema) - 1)
    if sw.get("subclass"):
        # a hybrid subclass that redeclares the fields of its parent with other defaults (what is kept
        # per class must not be looked up through the parent)
        withd = [h for h in hyb if any(len(f) > 2 for f in schema[h]["fields"]) and not typegen.has_refs(schema, h)]
        if withd:
            b = rng.choice(withd)
            fields = []
            for f in schema[b]["fields"]:
                g = [f[0], f[1]]
                if len(f) > 2 and schema[f[1]]["k"] == "sc":
                    kind = "default" if "default" in f[2] else "default_factory"
                    nv = typegen._small_scalar(rng, schema[f[1]]["t"])
                    for _ in range(4):
                        if nv != f[2][kind]:
                            break
                        nv = typegen._small_scalar(rng, schema[f[1]]["t"])
                    g.append({kind: nv, "parent": f[2][kind]})
                fields.append(g)
            nm = schema[b]["hname"] + "S"
            schema.append({"k": "struct", "name": f"{nm}Data", "hname": nm, "hybrid": True, "fields": fields, "rename": dict(schema[b].get("rename") or {}), "decl": "hybrid", "hbase": b})
            hyb.append(len(schema) - 1)
    if sw.get("deep_dyn"):
        # three levels by value, the innermost with several dynamic arrays of one item type: equal
        # total sizes with different splits exist at every level above it
        it = rng.choice(idx_sc)
        dname = f"ArrN{typegen.type_name(schema, it)}"
        dyn = [i for i, ty in enumerate(schema) if ty["k"] == "array" and ty["name"] == dname]
        if not dyn:
            schema.append({"k": "array", "name": dname, "item": it, "shape": [None], "order": [0], "decl": "sugar", "order_decl": None})
            dyn = [len(schema) - 1]
        lf = [["v", dyn[0]], ["w", dyn[0]]] + ([["u", dyn[0]]] if rng.random() < 0.5 else [])
        if rng.random() < 0.5:
            lf.insert(rng.randrange(len(lf) + 1), ["s", rng.choice(idx_sc)])
        for nm, fields in (("HL", lf), ("HM", None), ("HT", None)):
            if fields is None:
                fields = [["p", hyb[-1]], ["q", rng.choice(idx_sc)]]
                if rng.random() < 0.5:
                    fields.reverse()
            schema.append({"k": "struct", "name": f"{nm}Data", "hname": nm, "hybrid": True, "fields": fields, "rename": {}, "decl": "hybrid"})
            hyb.append(len(schema) - 1)
    return schema


def gen_world(rng, profile, tier):
    spec = objsim.gen_world(rng, profile, tier)
    sw = spec["switches"]
    sw.update({"chain": rng.random() < 0.35, "nested": rng.random() < 0.8, "rename": rng.random() < 0.7, "refs": rng.random() < 0.6, "defaults": rng.random() < 0.7, "strings": rng.random() < 0.6, "hybrid": True, "xobj_input": rng.random() < 0.7, "omit": rng.random() < 0.6, "nested_refs": rng.random() < 0.5, "deep_dyn": rng.random() < 0.3, "subclass": rng.random() < 0.3})
    spec["schema"] = gen_hybrid_schema(rng, sw)
    return spec


def hybrid_types(schema):
    return [i for i, ty in enumerate(schema) if ty["k"] == "struct" and ty.get("hybrid")]


# ------------------------------------------------------------------------------


class HWorld(ObjWorld):
    def __init__(self, spec):
        self.hclasses = {}
        _orig = typegen.build_classes

        def _bc(schema, module=None):
            return _orig(schema, module=module, hybrids=self.hclasses)

        typegen.build_classes = _bc
        try:
            super().__init__(spec)
        finally:
            typegen.build_classes = _orig

    def pyname(self, t, fname):
        return self.schema[t].get("rename", {}).get(fname, fname)


class HMat(M.Materialiser):
    """Materialiser that hands dressed objects to the dressing layer."""

    def __init__(self, *a):
        super().__init__(*a)
        self.memerr = False  # a dressed referent living in another buffer: must be refused
        self.pinned = []  # objects that become reference targets through the dressing layer
        self.depth = 0  # dressed objects are only understood as top-level keyword values / assigned values
        self.raw = False  # the receiving side is a raw xobject: never hand it dressed objects

    def mat(self, t, spec):
        schema = self.schema
        ty = schema[t]
        k = ty["k"]
        if k == "struct" and ty.get("hybrid"):
            if isinstance(spec, dict) and "obj" in spec:
                o = self._obj(spec["obj"])
                if o.t != t:
                    raise KeyError("type mismatch")
                val = o.dressed if (getattr(o, "dressed", None) is not None and self.depth <= 1 and not self.raw) else o.handle()
                return val, M.copy_node(schema, t, o.node, o.bufid == self.holder_buf)
            py, f = {}, {}
            self.depth += 1
            try:
                for fl in ty["fields"]:
                    if fl[0] in spec["d"]:
                        p, nd = self.mat(fl[1], spec["d"][fl[0]])
                        py[fl[0]] = p
                        f[fl[0]] = nd
                    else:
                        f[fl[0]] = M.default_node(schema, fl[1], M.decl_default(fl))
            finally:
                self.depth -= 1
            return py, M.StructNode(t, f)
        if k == "ref" and isinstance(spec, dict) and set(spec) <= {"obj", "view"}:
            o = self._obj(spec["obj"])
            if o.t != ty["to"]:
                raise KeyError("type mismatch")
            if getattr(o, "dressed", None) is not None and self.depth <= 1 and not self.raw:
                if o.bufid == self.holder_buf:
                    self.aliased += 1
                    self.pinned.append(o)
                    return o.dressed, M.RefLeaf(o.node)
                self.memerr = True
                self.foreign += 1
                return o.dressed, M.RefLeaf(M.copy_node(schema, ty["to"], o.node, False))
        if k == "ref" and isinstance(spec, dict) and "part" in spec:
            o = self._obj(spec["part"][0])
            path = spec["part"][1]
            pt, pnode, _, _ = M.node_at(schema, o.t, o.node, path)
            if pt != ty["to"] or pnode is None or "*" in path:
                raise KeyError("part mismatch")
            if getattr(o, "dressed", None) is not None and self.depth <= 1 and not self.raw:
                cur, tcur = o.dressed, o.t
                for el in path:
                    cur = getattr(cur, schema[tcur].get("rename", {}).get(el, el))
                    tcur = [f[1] for f in schema[tcur]["fields"] if f[0] == el][0]
                if not hasattr(cur, "_xobject"):
                    raise KeyError("part is not dressed")
                if o.bufid == self.holder_buf:
                    self.aliased += 1
                    if pnode.loc is None:
                        pnode.loc = (o.bufid, int(cur._xobject._offset))
                    return cur, M.RefLeaf(pnode)
                self.memerr = True
                self.foreign += 1
                return cur, M.RefLeaf(M.copy_node(schema, pt, pnode, False))
            return super().mat(t, spec)
        if k == "ref" and isinstance(spec, dict) and "d" in spec:
            self.depth += 1  # a dict for a referent goes to the raw struct constructor
            try:
                p, nd = self.mat(ty["to"], spec)
            finally:
                self.depth -= 1
            return p, M.RefLeaf(nd)
        return super().mat(t, spec)


def read_dressed(w, t, h, problems, path=""):
    """Snapshot of a dressed object as seen through its Python attributes; also
    checks that nested dressed parts sit where the parent's buffer data says."""
    schema = w.schema
    ty = schema[t]
    out = []
    H = w.hclasses[t]
    if not isinstance(h, H):
        problems.append(f"{path or '.'}: expected a dressed {H.__name__}, got {type(h).__name__}")
        return ("bad",)
    for f in ty["fields"]:
        py = w.pyname(t, f[0])
        ft = f[1]
        fty = schema[ft]
        v = getattr(h, py)
        k = fty["k"]
        if k == "sc":
            dt = np.dtype(typegen.SC_DTYPE[fty["t"]])
            if not isinstance(v, np.generic) or v.dtype != dt:
                out.append((f[0], ("badscalar", repr(type(v)))))
            else:
                out.append((f[0], ("sc", v.tobytes().hex())))
        elif k == "str":
            out.append((f[0], ("s", v) if isinstance(v, str) else ("badstr", repr(v))))
        elif k == "array":
            if not isinstance(v, np.ndarray):
                out.append((f[0], ("badarray", repr(type(v)))))
            else:
                shape = tuple(int(d) for d in v.shape)
                if int(np.prod(shape, dtype=object)) > 2_000_000:
                    out.append((f[0], ("badarray", f"implausible shape {shape}")))  # (a garbage header: not iterated)
                else:
                    out.append((f[0], ("ar", shape, [("sc", v[idx].tobytes().hex()) for idx in c_indices(shape)])))
        elif k == "struct":
            xpart = getattr(h._xobject, f[0])
            if hasattr(v, "_xobject"):
                if v._xobject._buffer is not h._xobject._buffer or int(v._xobject._offset) != int(xpart._offset):
                    problems.append(f"{path}.{py}: dressed part at (buffer {getattr(v._xobject._buffer._ctl, 'bid', '?')}, {int(v._xobject._offset)}) but the parent's data places it at (buffer {h._xobject._buffer._ctl.bid}, {int(xpart._offset)})")
                out.append((f[0], read_dressed(w, ft, v, problems, f"{path}.{py}")))
            else:
                problems.append(f"{path}.{py}: nested hybrid field is not dressed ({type(v).__name__})")
                out.append((f[0], ("bad",)))
        elif k == "ref":
            if v is None:
                out.append((f[0], ("null",)))
            elif hasattr(v, "_xobject"):
                loc = (v._xobject._buffer._ctl.bid, int(v._xobject._offset))
                out.append((f[0], ("ref", loc, read_dressed(w, fty["to"], v, problems, f"{path}.{py}*"))))
            else:
                loc = (v._buffer._ctl.bid, int(v._offset))
                out.append((f[0], ("ref", loc, read_handle(w, fty["to"], v))))
        else:
            raise ValueError(k)
    return ("st", out)


class HGenSource(GenSource):
    def top_types(self, w):
        # raw (undressed) constructions stay rare and never build hybrid structs behind the layer's back
        return [i for i, ty in enumerate(w.schema) if ty["k"] in ("struct", "array", "str")]

    def set_compound(self, w):
        op = super().set_compound(w)
        if op is not None and op.get("path") is not None and getattr(w.objs[op["obj"]], "dressed", None) is not None:
            # compound values that re-bind or null references of a dressed object through its raw
            # _xobject go behind the dressing layer's back (like raw reference rebinding): not generated
            try:
                tt = M.node_at(w.schema, w.objs[op["obj"]].t, w.objs[op["obj"]].node, op["path"])[0] if op["path"] else w.objs[op["obj"]].t
            except Exception:
                tt = None
            if tt is None or typegen.has_refs(w.schema, tt):
                return None
        if op is not None and isinstance(op.get("value"), dict) and "obj" in op["value"]:
            o = w.objs[op["obj"]]
            if getattr(o, "dressed", None) is not None:
                # replacing (part of) a dressed object through its raw _xobject, behind the dressing
                # layer's back, is outside the property's alphabet (like raw reference rebinding)
                return None
        return op

    def hlive(self, w):
        return [o for o in w.live_objs() if getattr(o, "dressed", None) is not None]

    def next(self, w):
        if self.n < self.sw["steps"] and not self.hlive(w) and hybrid_types(w.schema):
            op = self.h_construct(w)
            if op is not None:
                self.n += 1
                return op
        pend = getattr(self, "pending", None)
        if pend and self.n < self.sw["steps"]:
            # scripted continuation of an interesting prefix (a reference to a nested part was made:
            # drop or replace it, then try to move the part)
            self.n += 1
            return pend.pop(0)
        return super().next(w)

    def h_construct(self, w):
        rng = self.rng
        hts = hybrid_types(w.schema)
        if not hts or len(self.hlive(w)) >= self.sw["max_objs"] or self.world_leaves(w) > 6000:
            return None
        t = rng.choice(hts)
        place = self.place(w)
        if isinstance(place, dict) and place.get("how") == "offset":
            place = {"buf": place["buf"], "how": "default"}
        bufid = place["buf"] if isinstance(place, dict) and "buf" in place else None
        vg = self.vg(w, bufid)
        d = {}
        for f in w.schema[t]["fields"]:
            if rng.random() < (0.25 if self.sw.get("omit") else 0.05) and w.schema[f[1]]["k"] in ("sc", "ref"):
                continue
            d[f[0]] = self._field_value(w, vg, f[1], bufid)
        return {"op": "h_construct", "type": t, "value": {"d": d}, "place": place, "names": rng.choice(["py", "py", "xo"]), "id": self.new_id()}

    def _field_value(self, w, vg, ft, bufid):
        rng = self.rng
        ty = w.schema[ft]
        if ty["k"] == "ref":
            r = rng.random()
            if r < 0.2:
                return None
            cands = [o for o in w.live_objs(ty["to"])]
            same = [o for o in cands if o.bufid == bufid]
            if same and r < 0.65:
                return {"obj": rng.choice(same).k}
            if cands and r < 0.75:
                return {"obj": rng.choice(cands).k}
            return self._full_dict(w, vg, ty["to"], bufid)
        if ty["k"] == "struct":
            cands = [o for o in w.live_objs(ft)]
            if cands and rng.random() < 0.4:
                return {"obj": rng.choice(cands).k}
            return self._full_dict(w, vg, ft, bufid)
        return vg.gen(ft, depth=1, dims_ok=True)

    def _full_dict(self, w, vg, t, bufid):
        d = {}
        for f in w.schema[t]["fields"]:
            d[f[0]] = self._field_value(w, vg, f[1], bufid)
        return {"d": d}

    def _pick_h(self, w, want):
        rng = self.rng
        live = self.hlive(w)
        rng.shuffle(live)
        for o in live[:4]:
            paths = M.enum_paths(w.schema, o.t, o.node)
            cands = [(p, t, n) for p, t, n in paths if p and p[-1] != "*" and isinstance(p[-1], str) and want(w.schema, t, n, p)]
            if cands:
                p, t, n = rng.choice(cands)
                return o, p, t, n
        return None

    def h_set(self, w):
        rng = self.rng
        got = None
        if rng.random() < 0.3:
            # prefer compound targets: nested hybrid parts and references
            got = self._pick_h(w, lambda s, t, n, p: s[t]["k"] in ("struct", "ref"))
        if got is None:
            got = self._pick_h(w, lambda s, t, n, p: True)
        if got is None:
            return None
        o, p, t, n = got
        ty = w.schema[t]
        k = ty["k"]
        if k == "sc":
            value = M.gen_scalar(rng, ty["t"])
            pt, _, _, _ = M.node_at(w.schema, o.t, o.node, p[:-1])
            fdecl = [f for f in w.schema[pt]["fields"] if f[0] == p[-1]] if w.schema[pt]["k"] == "struct" else []
            if fdecl and M.decl_default(fdecl[0]) is not None and rng.random() < 0.35:
                # the declared default itself, or (floats) its closest neighbour: not the default
                dt = np.dtype(typegen.SC_DTYPE[ty["t"]])
                dd = M.decl_default(fdecl[0])
                if len(fdecl[0]) > 2 and "parent" in fdecl[0][2] and rng.random() < 0.5:
                    dd = fdecl[0][2]["parent"]  # (the default the parent class declares for this field)
                dflt = np.frombuffer(M.default_node(w.schema, t, dd), dtype=dt)[0]
                if dt.kind == "f" and rng.random() < 0.6:
                    dflt = np.nextafter(dflt, dt.type(np.inf) if rng.random() < 0.5 else dt.type(-np.inf))
                value = {"x": dt.type(dflt).tobytes().hex()}
            return {"op": "h_set", "obj": o.k, "path": p, "value": value}
        if k == "str":
            cap = n.cap if n.cap is not None else 1
            fits = [s for s in M.STRINGS if len(s.encode()) + 1 <= cap]
            return {"op": "h_set", "obj": o.k, "path": p, "value": {"s": rng.choice(fits or [""])}}
        if k == "array":
            if not n.items:
                return None
            r = rng.random()
            if r < 0.45:
                idx = list(rng.choice(c_indices(n.shape)))
                return {"op": "h_set", "obj": o.k, "path": p, "idx": idx, "value": M.gen_scalar(rng, w.schema[ty["item"]]["t"])}
            value = self._same_shape_value(w, t, n)
            if value is None:
                return None
            return {"op": "h_set", "obj": o.k, "path": p, "value": value, "how": rng.choice(["assign", "slice"])}
        if k == "struct":
            if typegen.has_refs(w.schema, t):
                # a nested part that holds references takes over another object of its class: its
                # references are re-bound (same buffer: the same referents; other buffer: duplicates),
                # and what the part shows for them has to follow. Afterwards the source's referent is
                # written, which must show through an alias and must not show through a duplicate.
                if not w.schema[t].get("hybrid") or "*" in p:
                    return None
                cands = [x for x in self.hlive(w) if x.t == t and x.k != o.k and objsim._shape_compatible(w.schema, t, n, x.node)]
                if not cands:
                    return None
                src = rng.choice(cands)
                op = {"op": "h_set", "obj": o.k, "path": p, "value": {"obj": src.k}, "raw": rng.random() < 0.35}
                follow = []
                for f in w.schema[t]["fields"]:
                    if w.schema[f[1]]["k"] == "ref" and src.node.f[f[0]].to is not None:
                        for x in self.hlive(w):
                            if x.node is src.node.f[f[0]].to:
                                leaves = [ff for ff in w.schema[x.t]["fields"] if w.schema[ff[1]]["k"] == "sc"]
                                if leaves:
                                    lf = rng.choice(leaves)
                                    follow.append({"op": "h_set", "obj": x.k, "path": [lf[0]], "value": M.gen_scalar(rng, w.schema[lf[1]]["t"])})
                if follow and not getattr(self, "pending", None):
                    self.pending = follow[:2]
                return op
            if rng.random() < 0.12 and w.schema[t].get("hybrid") and w.schema[t]["fields"]:
                # an object of the part's class whose FIRST field is a dynamic array of another length:
                # the assignment cannot be honoured (and is refused before anything is written)
                f0 = w.schema[t]["fields"][0]
                ft0 = w.schema[f0[1]]
                if ft0["k"] == "array" and len(ft0["shape"]) == 1 and ft0["shape"][0] is None and w.schema[ft0["item"]]["k"] == "sc":
                    misfits = [x for x in self.hlive(w) if x.t == t and x.k != o.k and len(x.node.f[f0[0]].items) != len(n.f[f0[0]].items)]
                    if misfits:
                        return {"op": "h_set", "obj": o.k, "path": p, "value": {"obj": rng.choice(misfits).k}, "refuse": True}
            if rng.random() < 0.3 and w.schema[t].get("hybrid") and not getattr(self, "pending", None):
                sc = self._resplit_scenario(w, o, p, t, n)
                if sc:
                    self.pending = sc[1:]
                    return sc[0]
            cands = [x for x in w.live_objs(t) if x.k != o.k]
            if cands and rng.random() < 0.6:
                return {"op": "h_set", "obj": o.k, "path": p, "value": {"obj": rng.choice(cands).k}}
            value = self._same_shape_value(w, t, n)
            if value is None:
                return None
            return {"op": "h_set", "obj": o.k, "path": p, "value": value}
        if k == "ref":
            r = rng.random()
            if r < 0.15:
                return {"op": "h_set", "obj": o.k, "path": p, "value": None}
            cands = w.live_objs(ty["to"])
            same = [x for x in cands if x.buf is o.buf and x.k != o.k]
            other = [x for x in cands if x.buf is not o.buf]
            if r < 0.3:
                # a part nested (by value) in another object of the same buffer as referent
                for x in [y for y in self.hlive(w) if y.buf is o.buf and y.k != o.k]:
                    parts = [pp for pp, pt2, pn in M.enum_paths(w.schema, x.t, x.node, through_refs=False) if pp and pt2 == ty["to"] and isinstance(pp[-1], str)]
                    if parts:
                        part = rng.choice(parts)
                        if rng.random() < 0.6:
                            # ... and later the reference is dropped or rebound and the part is asked to move
                            # (it is still nested: the move must still be refused)
                            drop = None if rng.random() < 0.5 or not same else {"obj": rng.choice(same).k}
                            self.pending = [
                                {"op": "h_set", "obj": o.k, "path": p, "value": drop},
                                {"op": "h_move", "obj": x.k, "part": part, "place": {"buf": pick_buf(w, rng), "how": "default"}},
                            ]
                        return {"op": "h_set", "obj": o.k, "path": p, "value": {"part": [x.k, part]}}
            if same and r < 0.6:
                return {"op": "h_set", "obj": o.k, "path": p, "value": {"obj": rng.choice(same).k}}
            if other and r < 0.75:
                return {"op": "h_set", "obj": o.k, "path": p, "value": {"obj": rng.choice(other).k}}
            return {"op": "h_set", "obj": o.k, "path": p, "value": self._full_dict(w, self.vg(w, o.bufid), ty["to"], o.bufid)}
        return None

    def _resplit_scenario(self, w, o, p, t, n):
        """[copy of the nested part,] a new object of the part's class with the same total size and
        another split of its dynamic arrays, assigned to the nested field dressed or as raw xobject:
        the library byte-copies it, every cached layout fact about the part has to follow."""
        rng = self.rng
        sc = w.schema
        # dynamic 1-D arrays of numbers of the part itself and of the parts nested in it by value
        dyn = []

        def walk(tt, node, path, depth):
            for f in sc[tt]["fields"]:
                ft = sc[f[1]]
                if ft["k"] == "array" and len(ft["shape"]) == 1 and ft["shape"][0] is None and sc[ft["item"]]["k"] == "sc":
                    dyn.append((tuple(path + [f[0]]), f[1], np.dtype(typegen.SC_DTYPE[sc[ft["item"]]["t"]]).itemsize, len(node.f[f[0]].items)))
                elif ft["k"] == "struct" and depth < 2 and not typegen.has_refs(sc, f[1]):
                    walk(f[1], node.f[f[0]], path + [f[0]], depth + 1)

        walk(t, n, [], 0)
        pairs = [(a, b) for a in dyn for b in dyn if a[0] < b[0] and a[2] == b[2] and a[3] != b[3]]
        if not pairs or o.bufid is None:
            return None
        deep = [pr for pr in pairs if len(pr[0][0]) > 1 and len(pr[1][0]) > 1]
        a, b = rng.choice(deep) if deep and rng.random() < 0.6 else rng.choice(pairs)
        la, lb = a[3], b[3]
        if rng.random() < 0.4 and abs(la - lb) >= 2:
            # move part of the difference only (for 3 fields: lengths that make old headers meet new offsets)
            k = rng.randrange(1, abs(la - lb))
            na, nb = (la - k, lb + k) if la > lb else (la + k, lb - k)
        else:
            na, nb = lb, la
        newlen = {a[0]: na, b[0]: nb}

        def build(tt, node, path):
            d = {}
            for f in sc[tt]["fields"]:
                key = tuple(path + [f[0]])
                if key in newlen:
                    it = sc[sc[f[1]]["item"]]["t"]
                    d[f[0]] = {"l": [M.gen_scalar(rng, it) for _ in range(newlen[key])], "shape": [newlen[key]]}
                elif sc[f[1]]["k"] == "struct" and any(k2[: len(key)] == key for k2 in newlen):
                    sub = build(f[1], node.f[f[0]], path + [f[0]])
                    if sub is None:
                        return None
                    d[f[0]] = {"d": sub}
                else:
                    v = self._same_shape_value(w, f[1], node.f[f[0]])
                    if v is None:
                        return None
                    d[f[0]] = v
            return d

        d = build(t, n, [])
        if d is None:
            return None
        if len(a[0]) > 1 or len(b[0]) > 1:
            self.deep_resplits = getattr(self, "deep_resplits", 0) + 1
        nid = self.new_id()
        ops = []
        if rng.random() < 0.6:
            ops.append({"op": "h_copy", "obj": o.k, "place": rng.choice([None, {"buf": o.bufid, "how": "default"}, {"ctx": 0}]), "id": self.new_id(), "part": p})
        ops.append({"op": "h_construct", "type": t, "value": {"d": d}, "place": {"buf": o.bufid if rng.random() < 0.7 else pick_buf(w, rng), "how": "default"}, "names": "xo", "id": nid})
        ops.append({"op": "h_set", "obj": o.k, "path": p, "value": {"obj": nid}, "raw": rng.random() < 0.5})
        return ops

    def h_copy(self, w):
        live = self.hlive(w)
        if not live or self.world_leaves(w) > 6000:
            return None
        o = self.rng.choice(live)
        r = self.rng.random()
        if r < 0.25:
            place = None
        elif r < 0.55:
            place = {"buf": w.bufs.index(o.buf), "how": "default"}
        else:
            place = self.place(w)
            if place == "default_ctx" or (isinstance(place, dict) and place.get("how") in ("offset", "aligned", "packed")):
                place = {"ctx": 0}
        op = {"op": "h_copy", "obj": o.k, "place": place, "id": self.new_id()}
        if self.rng.random() < 0.25:
            nested = [p for p, t, n in M.enum_paths(w.schema, o.t, o.node, through_refs=False) if p and isinstance(p[-1], str) and w.schema[t]["k"] == "struct" and w.schema[t].get("hybrid")]
            if nested:
                op["part"] = self.rng.choice(nested)
        return op

    def h_move(self, w):
        rng = self.rng
        live = self.hlive(w)
        if not live:
            return None
        o = rng.choice(live)
        part = []
        if rng.random() < 0.3:
            nested = [p for p, t, n in M.enum_paths(w.schema, o.t, o.node, through_refs=False) if p and isinstance(p[-1], str) and w.schema[t]["k"] == "struct" and w.schema[t].get("hybrid")]
            if nested:
                part = rng.choice(nested)
        r = rng.random()
        if r < 0.6:
            place = {"buf": pick_buf(w, rng), "how": "default"}
        else:
            place = {"ctx": rng.randrange(len(w.ctxs))}
        return {"op": "h_move", "obj": o.k, "part": part, "place": place}

    def h_dict(self, w):
        live = self.hlive(w)
        if not live or self.world_leaves(w) > 6000:
            return None
        o = self.rng.choice(live)
        r = self.rng.random()
        place = None if r < 0.4 else {"buf": w.bufs.index(o.buf), "how": "default"} if r < 0.7 else {"ctx": 0}
        also = [x.k for x in self.rng.sample(live, min(len(live), self.rng.choice([0, 0, 1, 2])))]
        return {"op": "h_dict", "obj": o.k, "place": place, "also": also, "id": self.new_id(), "nocopy": self.rng.random() < 0.3}

    def h_restart(self, w):
        live = self.hlive(w)
        if not live or self.world_leaves(w) > 6000:
            return None
        k = self.rng.choice([1, 1, 2, 3])
        objs = self.rng.sample(live, min(k, len(live)))
        op = {"op": "h_restart", "objs": [o.k for o in objs], "id": self.new_id(len(objs))}
        if self.sw.get("cold_restart") and not self.cold_done and self.rng.random() < 0.5:
            op["cold"] = True  # the same pickle is also loaded in a fresh interpreter (sim/coldload.py)
            self.cold_done = True
        return op


class HStep(Step):
    def execute(self):
        super().execute()
        if not self.viols:
            self.oracle_mirror()

    # -- the mirror: attributes == buffer data == model, nested parts in sync
    def oracle_mirror(self):
        w = self.w
        prop = objsim.STEP_PROP.get(self.kind, "C18")
        if prop not in ("C18", "C19", "C20"):
            prop = "C18"
        for o in w.live_objs():
            h = getattr(o, "dressed", None)
            if h is None:
                continue
            # (an object that came back from the pickled form must be fully usable: C20's subject)
            mprop = "C20" if self.kind == "h_restart" or getattr(o.buf, "_sim_restored", False) else "C18"
            if h._xobject._buffer is not o.buf or int(h._xobject._offset) != o.off:
                self.viol(mprop, "dressed_object_left_its_storage", [self.kind], f"object {o.k}: dressed at (buffer {h._xobject._buffer._ctl.bid},{int(h._xobject._offset)}), registered at ({o.bufid},{o.off})")
                return
            problems = []
            try:
                got = read_dressed(w, o.t, h, problems)
            except Exception as e:
                self.viol(mprop, "attribute_read_raised", [self.kind, exc_sig(e), typegen.features(w.schema, o.t)], f"object {o.k}: {type(e).__name__}: {e}")
                return
            if problems:
                self.viol(mprop, "dressed_part_out_of_sync", [self.kind, self.feat_h()], f"object {o.k}: {problems[0]}; after {str(self.op)[:300]}")
                return
            want = M.snapshot(w.schema, o.t, o.node)
            if not M.same(want, got):
                d = M.first_diff(want, got)
                self.viol(mprop, "attribute_ne_buffer_data", [self.kind, self.feat_h(), "xref" if M.crosses_ref(d) or (d and "ref target" in d) else "direct"], f"object {o.k}: {d} (model/buffer vs attribute); after {str(self.op)[:300]}")
                return
            self.res.probe("mirror_checked")

    def feat_h(self):
        op = self.op
        w = self.w
        try:
            if "path" in op and "obj" in op:
                o = w.objs[op["obj"]]
                t, _, _, _ = M.node_at(w.schema, o.t, o.node, op["path"])
                v = op.get("value")
                form = "none" if v is None else "obj" if isinstance(v, dict) and "obj" in v else "data"
                return w.schema[t]["k"] + ":" + form
        except Exception:
            pass
        return "-"

    def hobj(self, k):
        o = self.get_obj(k)
        if getattr(o, "dressed", None) is None:
            raise Skip()
        return o

    def ensure_buffer(self, buf):
        w = self.w
        if not any(buf is b for b in w.bufs):
            if not hasattr(buf, "_ctl"):
                raise Skip()
            w._on_new(buf)
            buf._ctl.drain()
            self.pre = self.pre + [seams.raw_bytes(buf)]

    def register_h(self, t, node, h, oid=None):
        late = not any(h._xobject._buffer is b for b in self.w.bufs)
        self.ensure_buffer(h._xobject._buffer)
        if late:
            # the buffer was made by a context the simulator did not hand out (e.g. an unpickled
            # one): its allocation log starts now, with the object just placed in it
            h._xobject._buffer._sim_allocs.append((int(h._xobject._offset), int(h._xobject._size)))
        o = self.register(t, node, h._xobject, oid)
        o.dressed = h
        o.pinned = False
        return o

    def place_kwargs(self, place):
        w = self.w
        if place is None or place == "default_ctx":
            return {}
        if "ctx" in place:
            if place["ctx"] >= len(w.ctxs):
                raise Skip()
            return {"_context": w.ctxs[place["ctx"]]}
        if place["buf"] >= len(w.bufs):
            raise Skip()
        return {"_buffer": w.bufs[place["buf"]]}

    # -- operations
    def op_h_construct(self):
        w, op = self.w, self.op
        t = op["type"]
        if t >= len(w.schema) or not w.schema[t].get("hybrid"):
            raise Skip()
        H = w.hclasses[t]
        mat = HMat(w.schema, w.classes, w.objs, self.holder_bufid(op["place"]))
        try:
            py, node = mat.mat(t, op["value"])
        except KeyError:
            raise Skip()
        kwargs = {}
        for fn, v in py.items():
            name = w.pyname(t, fn) if (op.get("names") == "py" or hasattr(v, "_xobject")) else fn
            kwargs[name] = v
        pk = self.place_kwargs(op["place"])
        if mat.foreign:
            self.res.fault("foreign_operand", mat.foreign)
        self.res.features.add(f"h_construct:{typegen.features(w.schema, t)}:{'memerr' if mat.memerr else 'ok'}:{objsim._placek(op['place']) if op['place'] else 'none'}")
        try:
            h = H(**kwargs, **pk)
        except MemoryError as e:
            if mat.memerr:
                self.outcome = "refused"
                self.res.probe("cross_buffer_reference_refused")
                # referents accepted before the offending one may already have been marked as
                # shared (no longer movable) by the refused construction: not moved later (DESIGN 11.4)
                for x in mat.pinned:
                    x.pinned = True
                return
            self.outcome = "raised:" + exc_sig(e)
            self.viol("C18", "construct_raised", ["h_construct", exc_sig(e), typegen.features(w.schema, t)], f"{type(e).__name__}: {e}; value {str(op['value'])[:300]}")
            return
        except Exception as e:
            self.outcome = "raised:" + exc_sig(e)
            self.viol("C18", "construct_raised", ["h_construct", exc_sig(e), typegen.features(w.schema, t)], f"{type(e).__name__}: {e}; value {str(op['value'])[:300]}")
            return
        if mat.memerr:
            self.outcome = "accepted"
            self.viol("C18", "cross_buffer_reference_not_refused", ["h_construct"], f"a dressed object living in another buffer was accepted for a reference field; value {str(op['value'])[:300]}")
            return
        for x in mat.pinned:
            x.pinned = True
        o = self.register_h(t, node, h)
        self.new_obj = o
        self.check_obj(o, "C18", what="constructed_ne_model")

    def _holder(self, o, path):
        """Walk py-named attributes of dressed objects (through references too)."""
        w = self.w
        cur = o.dressed
        t = o.t
        for el in path:
            if el == "*":
                t = w.schema[t]["to"]
                continue
            ty = w.schema[t]
            if ty["k"] != "struct":
                raise Skip()
            fld = [f for f in ty["fields"] if f[0] == el]
            if not fld:
                raise Skip()
            name = w.pyname(t, el) if hasattr(cur, "_xobject") else el
            cur = getattr(cur, name)
            t = fld[0][1]
            if cur is None:
                raise Skip()
        return cur, t

    def op_h_set(self):
        w, op = self.w, self.op
        schema = w.schema
        o = self.hobj(op["obj"])
        path = op["path"]
        try:
            t, node, parent, key = M.node_at(schema, o.t, o.node, path)
        except Exception:
            raise Skip()
        if node is None or parent is None or not isinstance(parent, M.StructNode):
            raise Skip()
        k = schema[t]["k"]
        pt, _, _, _ = M.node_at(schema, o.t, o.node, path[:-1])
        holder, ht = self._holder(o, path[:-1])
        name = w.pyname(ht, path[-1]) if hasattr(holder, "_xobject") else path[-1]
        raw_holder = not hasattr(holder, "_xobject")
        holder_bufid = holder._buffer._ctl.bid if raw_holder else holder._xobject._buffer._ctl.bid
        self._allow_path(o, path)
        v = op["value"]
        form = "none" if v is None else "obj" if isinstance(v, dict) and "obj" in v else "data"
        self.res.features.add(f"h_set:{k}:{form}:{'idx' if 'idx' in op else op.get('how', '-')}:{'xref' if '*' in path else 'nested' if len(path) > 1 else 'top'}:{'renamed' if name != path[-1] else 'plain'}")
        expect_memerr = False
        pinned = []
        replace_whole = False
        try:
            if k in ("sc", "str"):
                mat = M.Materialiser(schema, w.classes, w.objs, None)
                py, vnode = mat.mat(t, v)
                if k == "str" and not objsim._shape_compatible(schema, t, node, vnode):
                    raise Skip()
                new = vnode if k == "sc" else M.assign_into(schema, t, node, vnode)
                action = lambda: setattr(holder, name, py)  # noqa: E731
            elif k == "array":
                ity = schema[schema[t]["item"]]
                if "idx" in op:
                    idx = tuple(op["idx"])
                    if len(idx) != len(node.shape) or any(i >= d for i, d in zip(idx, node.shape)):
                        raise Skip()
                    val = M.scalar_py(ity["t"], v)
                    pos = node.flat(idx)

                    def action():
                        getattr(holder, name)[idx if len(idx) > 1 else idx[0]] = val

                    new = node
                    post = lambda: node.items.__setitem__(pos, bytes.fromhex(v["x"]))  # noqa: E731
                else:
                    mat = M.Materialiser(schema, w.classes, w.objs, None)
                    py, vnode = mat.mat(t, v)
                    if vnode.shape != node.shape:
                        raise Skip()
                    if op.get("how") == "slice" and not raw_holder:

                        def action():
                            getattr(holder, name)[:] = py

                    else:
                        action = lambda: setattr(holder, name, py)  # noqa: E731
                    new = node
                    post = lambda: M.assign_into(schema, t, node, vnode)  # noqa: E731
            elif k == "struct" and typegen.has_refs(schema, t):
                if form != "obj" or raw_holder:
                    raise Skip()
                src = self.get_obj(v["obj"])
                if src.t != t or src is o or getattr(src, "dressed", None) is None:
                    raise Skip()
                mat = M.Materialiser(schema, w.classes, w.objs, holder_bufid)
                _, vnode = mat.mat(t, v)
                if not objsim._shape_compatible(schema, t, node, vnode):
                    raise Skip()
                val = src.handle() if op.get("raw") else src.dressed
                if mat.foreign or src.buf is not o.buf:
                    self.res.fault("foreign_operand")
                self.res.probe("nested_assignment_of_reference_bearing_part")
                action = lambda: setattr(holder, name, val)  # noqa: E731
                new = node
                post = lambda: M.assign_into(schema, t, node, vnode)  # noqa: E731
            elif k == "struct":
                if raw_holder and "*" in path:
                    # the part is reached through a reference that the library hands out undressed (after
                    # a restart): replacing it through that raw view goes behind the back of the dressed
                    # object that owns the part (same class as raw reference rebinding: not generated)
                    raise Skip()
                if form == "obj" and op.get("refuse"):
                    src = self.get_obj(v["obj"])
                    f0 = schema[t]["fields"][0][0] if schema[t]["fields"] else None
                    if src.t != t or src is o or raw_holder or getattr(src, "dressed", None) is None or f0 is None or not isinstance(node.f[f0], M.ArrayNode) or len(src.node.f[f0].items) == len(node.f[f0].items):
                        raise Skip()
                    if self._part_size(o, path) == self._extent(src):
                        raise Skip()  # equal total size: byte-copied wholesale, a legitimate assignment
                    self.res.probe("nested_assignment_that_cannot_be_honoured")
                    try:
                        setattr(holder, name, src.dressed)
                    except Exception as e:
                        # refused: the part keeps its value, and what the object shows for it keeps being
                        # the part (checked by the mirror and coherence passes against the unchanged model)
                        self.outcome = "refused:" + type(e).__name__
                        return
                    self.outcome = "accepted"
                    self.viol("C11", "misuse_accepted", ["h_set_misfit"], f"object {o.k} path {path}: an object whose first array has another length was accepted")
                    return
                if form == "obj":
                    src = self.get_obj(v["obj"])
                    if src.t != t or src is o:
                        raise Skip()
                    same_layout = self._same_layout(o, path, src) and objsim._shape_compatible(schema, t, node, src.node)
                    same_size = self._part_size(o, path) == self._extent(src) and self._extent(src) > 0
                    if not same_layout and not same_size:
                        raise Skip()  # neither an in-place fit nor an equal-size replacement: may legitimately be refused
                    val = src.dressed if (getattr(src, "dressed", None) is not None and not raw_holder and not op.get("raw")) else src.handle()
                    if op.get("raw"):
                        self.res.probe("nested_assignment_of_raw_xobject")
                    vnode = M.copy_node(schema, t, src.node, False)
                    if not same_layout:
                        # equal total size, other split of the dynamic parts: the library byte-copies the
                        # value, which replaces the nested object wholesale (shapes, capacities, offsets)
                        replace_whole = True
                        self.res.probe("nested_assignment_same_size_other_split")
                    if src.buf is not o.buf:
                        self.res.fault("foreign_operand")
                else:
                    mat = M.Materialiser(schema, w.classes, w.objs, None)
                    val, vnode = mat.mat(t, v)
                    if not objsim._shape_compatible(schema, t, node, vnode):
                        raise Skip()
                action = lambda: setattr(holder, name, val)  # noqa: E731
                new = node
                if replace_whole:
                    if self._inner_referenced(t, node):
                        raise Skip()
                    if quarantined("set.whole_update_via_other_handle") and self._inner_referenced(t, node, itself=True):
                        # known finding C06-stale-handle-after-whole-update in hybrid dress: the dressed
                        # referent kept by the referring object is another live handle of the replaced part
                        raise Skip()
                    # (in place: references to the part itself go on denoting it, with its new content)
                    post = lambda: setattr(node, "f", vnode.f)  # noqa: E731
                else:
                    post = lambda: M.assign_into(schema, t, node, vnode)  # noqa: E731
                if form == "obj" and any(schema[f[1]]["k"] == "struct" for f in schema[t]["fields"]):
                    self.res.probe("nested_assignment_of_object_with_nested_parts")
            elif k == "ref":
                mat = HMat(schema, w.classes, w.objs, holder_bufid)
                mat.raw = raw_holder
                val, leaf = mat.mat(t, v)
                expect_memerr = mat.memerr
                pinned = mat.pinned
                if mat.foreign:
                    self.res.fault("foreign_operand", mat.foreign)
                action = lambda: setattr(holder, name, val)  # noqa: E731
                new = leaf
            else:
                raise Skip()
        except KeyError:
            raise Skip()
        try:
            action()
        except MemoryError as e:
            if expect_memerr:
                self.outcome = "refused"
                self.res.probe("cross_buffer_reference_refused")
                # refused: the reference keeps denoting what it denoted (model unchanged);
                # the copy the library may have made in the holder's buffer is unreachable garbage
                return
            self.outcome = "raised:" + exc_sig(e)
            self.viol("C18", "assignment_raised", ["h_set", exc_sig(e), k, form], f"{type(e).__name__}: {e}; path {path}")
            return
        except Exception as e:
            self.outcome = "raised:" + exc_sig(e)
            self.viol("C18", "assignment_raised", ["h_set", exc_sig(e), k, form], f"{type(e).__name__}: {e}; path {path} value {str(v)[:200]}")
            return
        if expect_memerr:
            self.outcome = "accepted"
            self.viol("C18", "cross_buffer_reference_not_refused", ["h_set"], f"object {o.k} path {path}: a dressed object living in another buffer was accepted for a reference field")
            return
        for x in pinned:
            x.pinned = True
        if k in ("sc", "str", "ref"):
            M.store_at(parent, key, new)
        else:
            post()
        if replace_whole and self.pre_layout is not None:
            self.pre_layout.pop(o.k, None)  # its nested layout legitimately changed
            if "*" in path:
                self.pre_layout = None  # (the part lives in another object, reached through a reference)
        self.res.probe("h_set_" + k + "_" + form)

    def _part_size(self, o, path):
        w = self.w
        try:
            lay = []
            w.dec.decode(o.t, seams.raw_bytes(o.buf), o.off, o.bufid, lay, None, (), True)
        except DecodeError:
            return -1
        key = tuple(tuple(el) if isinstance(el, list) else el for el in path)
        hit = [x for x in lay if x[0] == key]
        return hit[0][2] - hit[0][1] if hit else -1

    def _same_layout(self, o, path, src):
        """Decoder layout of the addressed part equals the layout of `src` (sizes of all parts)."""
        w = self.w
        try:
            lay_o = []
            w.dec.decode(o.t, seams.raw_bytes(o.buf), o.off, o.bufid, lay_o, None, (), True)
            lay_s = []
            w.dec.decode(src.t, seams.raw_bytes(src.buf), src.off, src.bufid, lay_s)
        except DecodeError:
            return False
        key = tuple(tuple(el) if isinstance(el, list) else el for el in path)
        base = [x for x in lay_o if x[0] == key]
        if not base:
            return False
        b0 = base[0][1]
        part = sorted((p[len(key) :], s - b0, e - b0, kd) for p, s, e, kd in lay_o if p[: len(key)] == key and "*" not in p[len(key) :])
        whole = sorted((p, s - src.off, e - src.off, kd) for p, s, e, kd in lay_s)
        return part == whole

    def op_h_copy(self):
        w, op = self.w, self.op
        src = self.hobj(op["obj"])
        pk = self.place_kwargs(op["place"])
        if op.get("part"):
            return self._h_copy_part(src, op["part"], pk)
        try:
            h = src.dressed.copy(**pk)
        except Exception as e:
            self.outcome = "raised:" + exc_sig(e)
            self.viol("C18", "copy_raised", ["h_copy", exc_sig(e), typegen.features(w.schema, src.t)], f"{type(e).__name__}: {e}")
            return
        same_buf = h._xobject._buffer is src.buf
        node = M.copy_node(w.schema, src.t, src.node, same_buf)
        o = self.register_h(src.t, node, h)
        o.copy_of = src.k
        if not same_buf:
            self.res.fault("foreign_operand")
        self.res.features.add(f"h_copy:{typegen.features(w.schema, src.t)}:{'same' if same_buf else 'other'}")
        self.res.probe("h_copy_" + ("same_buffer" if same_buf else "other_buffer"))
        if type(h) is not type(src.dressed):
            self.viol("C18", "copy_has_other_class", ["h_copy"], f"{type(h).__name__}")
        self.check_obj(o, "C18", what="copy_ne_model")
        if o.buf is src.buf:
            s0, s1 = src.off, src.off + self._extent(src)
            c0, c1 = o.off, o.off + self._extent(o)
            if c0 < s1 and s0 < c1:
                self.viol("C18", "copy_overlaps_source", ["h_copy"], f"src [{s0},{s1}) copy [{c0},{c1})")

    def _h_copy_part(self, src, part, pk):
        """outer.inner.copy(): an independent top-level object made from a nested dressed part."""
        w = self.w
        try:
            pt, pnode, _, _ = M.node_at(w.schema, src.t, src.node, part)
        except Exception:
            raise Skip()
        target, tt = self._holder(src, part)
        if pnode is None or not hasattr(target, "_xobject") or not w.schema[tt].get("hybrid"):
            raise Skip()
        try:
            h = target.copy(**pk)
        except Exception as e:
            self.outcome = "raised:" + exc_sig(e)
            self.viol("C18", "copy_raised", ["h_copy", exc_sig(e), "part"], f"{type(e).__name__}: {e}")
            return
        same_buf = h._xobject._buffer is src.buf
        o = self.register_h(tt, M.copy_node(w.schema, tt, pnode, same_buf), h)
        o.copy_of = src.k
        self.res.probe("h_copy_of_nested_part")
        self.check_obj(o, "C18", what="copy_ne_model")

    def op_h_move(self):
        w, op = self.w, self.op
        o = self.hobj(op["obj"])
        part = op.get("part") or []
        pk = self.place_kwargs(op["place"])
        target, tt = self._holder(o, part)
        if not hasattr(target, "_xobject"):
            raise Skip()
        has_refs = typegen.has_refs(w.schema, tt)
        nested = bool(part)
        must_refuse = nested or has_refs
        if not must_refuse and (getattr(o, "pinned", False) or self._referenced_from_outside(o)):
            raise Skip()  # a reference target: refusing or moving are both defensible, not generated
        self.res.features.add(f"h_move:{'nested' if nested else 'top'}:{'refs' if has_refs else 'norefs'}:{'ctx' if '_context' in pk else 'buf'}")
        try:
            target.move(**pk)
        except MemoryError:
            if must_refuse:
                self.outcome = "refused"
                self.res.probe("move_refused_" + ("nested" if nested else "refs"))
                return
            self.outcome = "raised:MemoryError"
            self.viol("C18", "move_refused_for_free_object", ["h_move"], f"object {o.k}: top-level, reference-free object was not movable")
            return
        except Exception as e:
            self.outcome = "raised:" + exc_sig(e)
            self.viol("C18", "move_raised", ["h_move", exc_sig(e)], f"{type(e).__name__}: {e}")
            return
        if must_refuse:
            self.outcome = "accepted"
            self.viol("C18", "move_not_refused", ["h_move", "nested" if nested else "refs"], f"object {o.k} part {part}: move of {'a nested part' if nested else 'an object containing references'} succeeded")
            return
        # relocated: same value, new storage; the old storage stays allocated (nothing frees it)
        h = o.dressed
        nb = h._xobject._buffer
        self.ensure_buffer(nb)
        if "_buffer" in pk and nb is not pk["_buffer"]:
            self.viol("C18", "moved_to_wrong_buffer", ["h_move"], f"object {o.k}")
            return
        if "_context" in pk and nb.context is not pk["_context"]:
            self.viol("C18", "moved_to_wrong_context", ["h_move"], f"object {o.k}")
            return
        o.buf, o.off, o.hnd = nb, int(h._xobject._offset), h._xobject
        o.node.loc = (o.bufid, o.off)
        self.res.probe("moved")
        self.res.fault("move")
        self.check_obj(o, "C18", what="moved_ne_model")

    def _referenced_from_outside(self, o):
        w = self.w
        inside = set()

        def collect(t, node):
            if isinstance(node, (M.StructNode, M.ArrayNode, M.StrNode)):
                inside.add(id(node))
            ty = w.schema[t]
            if ty["k"] == "struct":
                for f in ty["fields"]:
                    collect(f[1], node.f[f[0]])
            elif ty["k"] == "array" and w.schema[ty["item"]]["k"] not in ("sc",):
                for x in node.items:
                    collect(ty["item"], x)

        collect(o.t, o.node)
        for x in w.live_objs():
            if x is o:
                continue
            for p, t, n in M.enum_paths(w.schema, x.t, x.node, maxn=400):
                if isinstance(n, (M.RefLeaf, M.URefLeaf)) and n.to is not None and id(n.to) in inside:
                    return True
        return False

    def op_h_dict(self):
        w, op = self.w, self.op
        o = self.hobj(op["obj"])
        schema = w.schema
        H = w.hclasses[o.t]
        try:
            if op.get("nocopy"):
                d = o.dressed.to_dict(copy_to_cpu=False)  # the dictionary is taken from the object itself
                self.res.probe("to_dict_without_cpu_copy")
            else:
                d = o.dressed.to_dict()
        except Exception as e:
            self.outcome = "raised:" + exc_sig(e)
            self.viol("C19", "to_dict_raised", ["h_dict", exc_sig(e)], f"{type(e).__name__}: {e}; field kinds {self._kinds(o.t)}")
            return
        # other dictionaries taken before this one is consumed (dicts = [e.to_dict() for e in elems])
        for k2 in op.get("also", []):
            try:
                x = self.hobj(k2)
                x.dressed.to_dict()
                self.res.probe("to_dict_interleaved")
            except Skip:
                pass
            except Exception:
                pass  # reported when that object is the subject of its own h_dict step
        # default elision: fields equal to their declared default are absent
        ty = schema[o.t]
        for f in ty["fields"]:
            fty = schema[f[1]]
            py = w.pyname(o.t, f[0])
            if fty["k"] == "sc":
                dflt = M.default_node(schema, f[1], M.decl_default(f))
                cur = o.node.f[f[0]]
                if cur is not M.UNDEF and cur == dflt and py in d:
                    self.viol("C19", "default_valued_field_not_omitted", ["h_dict", "declared" if M.decl_default(f) else "implicit"], f"{py}={d[py]!r} equals its default but is in the dictionary {list(d)}")
                    return
                if cur is not M.UNDEF and cur != dflt and py not in d:
                    dt = np.dtype(typegen.SC_DTYPE[fty["t"]])
                    a, b = np.frombuffer(cur, dtype=dt)[0], np.frombuffer(dflt, dtype=dt)[0]
                    if not (a == b):  # -0.0 == 0.0: equal to the default as values
                        self.viol("C19", "non_default_field_omitted", ["h_dict"], f"{py} holds {a!r} (default {b!r}) but is absent from {list(d)}")
                        return
        self.res.probe("to_dict_ok")
        pk = self.place_kwargs(op["place"])
        try:
            h = H.from_dict(d, **pk)
        except Exception as e:
            self.outcome = "raised:" + exc_sig(e)
            self.viol("C19", "from_dict_raised", ["h_dict", exc_sig(e)], f"{type(e).__name__}: {e}; dict {str(d)[:400]}; field kinds {self._kinds(o.t)}")
            return
        same_buf = h._xobject._buffer is o.buf
        node = M.copy_node(schema, o.t, o.node, False)
        self._omitted_as_default(o.t, node, d)
        n2 = self.register_h(o.t, node, h)
        self.res.features.add(f"h_dict:{self._kinds(o.t)}")
        if self.check_obj(n2, "C19", what="rebuilt_from_dict_ne_original") is None and self.viols:
            self.viols[-1].detail += f"; dict {str(d)[:500]}"

    def _omitted_as_default(self, t, node, d):
        """A field omitted because it *equals* its default comes back as the default:
        -0.0 equals 0.0 as a value, so the rebuilt field may hold +0.0 (value equality
        is what the property states; bit patterns are compared everywhere else)."""
        w = self.w
        schema = w.schema
        if not isinstance(d, dict):
            return
        dressed_names = "__class__" in d
        for f in schema[t]["fields"]:
            fty = schema[f[1]]
            key = w.pyname(t, f[0]) if dressed_names else f[0]
            if fty["k"] == "sc" and key not in d:
                cur = node.f[f[0]]
                dflt = M.default_node(schema, f[1], M.decl_default(f))
                if cur is not M.UNDEF and cur != dflt:
                    dt = np.dtype(typegen.SC_DTYPE[fty["t"]])
                    if np.frombuffer(cur, dtype=dt)[0] == np.frombuffer(dflt, dtype=dt)[0]:
                        node.f[f[0]] = dflt
            elif fty["k"] == "array" and key not in d:
                dt = np.dtype(typegen.SC_DTYPE[schema[fty["item"]]["t"]])
                zero = dt.type(0).tobytes()
                an = node.f[f[0]]
                an.items = [zero if (x is not M.UNDEF and np.frombuffer(x, dtype=dt)[0] == 0) else x for x in an.items]
            elif fty["k"] == "struct" and key in d:
                self._omitted_as_default(f[1], node.f[f[0]], d[key])
            elif fty["k"] == "ref" and key in d and node.f[f[0]].to is not None:
                self._omitted_as_default(fty["to"], node.f[f[0]].to, d[key])

    def _kinds(self, t):
        sc = self.w.schema
        return "+".join(sorted({sc[f[1]]["k"] + (str(len(sc[f[1]]["shape"])) if sc[f[1]]["k"] == "array" else "") for f in sc[t]["fields"]}))

    def op_h_restart(self):
        import pickle

        w, op, res = self.w, self.op, self.res
        objs = [self.hobj(k) for k in op["objs"]]
        for b in w.bufs:
            b._ctl.armed = False
        try:
            try:
                data = pickle.dumps([o.dressed for o in objs])
                new = pickle.loads(data)
            except Exception as e:
                self.outcome = "raised:" + exc_sig(e)
                self.viol("C20", "pickle_raised", ["h_restart", exc_sig(e)], f"{type(e).__name__}: {e}")
                return
        finally:
            for b in w.bufs:
                b._ctl.armed = True
        from .objrestart import clone_graph

        res.fault("restart")
        if op.get("cold"):
            from .objrestart import _cold

            _cold(self, objs, data, "hybrid")
            if self.viols:
                return
        for i in range(len(objs)):
            for j in range(i + 1, len(objs)):
                was = objs[i].buf is objs[j].buf
                now = new[i]._xobject._buffer is new[j]._xobject._buffer
                if was != now:
                    self.viol("C20", "buffer_sharing_not_preserved", ["h_restart", "shared" if was else "separate"], f"objects {objs[i].k},{objs[j].k}")
                    return
        bidmap, newbufs = {}, []
        for o, h in zip(objs, new):
            nb = h._xobject._buffer
            if nb is o.buf:
                self.viol("C20", "restored_object_shares_storage_with_original", ["h_restart"], f"object {o.k}")
                return
            if not any(nb is x for x in newbufs):
                newbufs.append(nb)
                nb._ctl.bid = len(w.bufs)
                nb._ctl.armed = True
                nb._ctl.drain()
                nb._ctl.relocate_at = {}
                nb._sim_restored = True
                nb._sim_allocs = list(o.buf._sim_allocs)
                w.bufs.append(nb)
                if hasattr(nb.context, "_sim_plan"):
                    nb.context._sim_plan["on_new"] = w._on_new
                bidmap[o.bufid] = nb._ctl.bid
        self.pre = self.pre + [seams.raw_bytes(b) for b in newbufs]
        memo = {}
        base = op.get("id", len(w.objs))
        for j, (o, h) in enumerate(zip(objs, new)):
            node = clone_graph(w.schema, o.t, o.node, memo, bidmap)
            n = self.register_h(o.t, node, h, base + j)
            n.pinned = getattr(o, "pinned", False)
            self.check_obj(n, "C20", what="restored_ne_model")


class HybridSim(ObjSim):
    name = "hybridsim"
    world_cls = HWorld
    step_cls = HStep
    source_cls = HGenSource
    components = {
        "real": ObjSim.components["real"] + ["xobjects.hybrid_class: MetaHybridClass, _FieldOfDressed, xoinitialize, copy, move, _reinit_from_xobject, to_dict, from_dict, __getstate__/__setstate__"],
        "stub": ObjSim.components["stub"],
    }
    not_claimed = {
        "C18": ["pure-Python attributes added to dressed objects are not modelled", "moves of objects that are reference targets are not generated (refusing or moving are both defensible)"],
        "C19": ["_skip_in_to_dict / _store_in_to_dict customisation hooks"],
    }

    needs_scratch = True  # (the c_restart profile compiles)

    def run(self, prop, profile, rng=None, replay=None, tier="quick"):
        if profile == "c_restart":
            # C20 with compiled code on both sides of the restart (sim/capisim.py)
            from .capisim import CApiSim

            return CApiSim().run(prop, profile, rng=rng, replay=replay, tier=tier)
        return super().run(prop, profile, rng=rng, replay=replay, tier=tier)

    def gen_world(self, rng, profile, tier):
        if not profile.startswith("hybrid"):
            return objsim.gen_world(rng, profile, tier)  # plain ObjSim world (json / restart profiles)
        return gen_world(rng, profile, tier)
