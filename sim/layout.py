"""Independent decoder of the documented binary layout.

Written from the statement of C05, Architecture.md and
docs/architecture/types.rst only; imports nothing from xobjects.  r8(x) = x
rounded up to a multiple of 8; header words are little-endian int64; offsets
inside an object are relative to the object's first byte.

 scalar   itemsize bytes; as a struct field it occupies r8(itemsize), as an
          array item exactly itemsize.
 string   [size][UTF-8 bytes][>=1 NUL ... up to size]; size counts the header.
 struct   static: fields in declaration order at cumulative r8(field size).
          dynamic: [size], static fields in order, one offset word for each
          dynamic field except the first, then the dynamic fields; the first at
          the fixed position right after the table, the others where their
          offset word says.
 array    [size] unless shape and item are static; one word per dynamic
          dimension in axis order; ndim stride words iff ndim>1 and some
          dimension is dynamic; for dynamically sized items a table of one
          offset word per item in memory order; then the data.  order lists
          the axes from slowest to fastest varying.
 ref      one word: target offset minus the offset of this word; -2**63 null.
 uref     that word followed by the member index; null = (-2**63, -1).
"""
import struct as _struct

NULL = -(2**63)

DT = {
    "Float64": ("<d", 8),
    "Float32": ("<f", 4),
    "Int64": ("<q", 8),
    "UInt64": ("<Q", 8),
    "Int32": ("<i", 4),
    "UInt32": ("<I", 4),
    "Int16": ("<h", 2),
    "UInt16": ("<H", 2),
    "Int8": ("<b", 1),
    "UInt8": ("<B", 1),
}


def r8(x):
    return (x + 7) // 8 * 8


class DecodeError(Exception):
    def __init__(self, rule, detail=""):
        super().__init__(f"{rule}: {detail}")
        self.rule = rule
        self.detail = detail


def strides_for(shape, order, itemsize):
    st = [0] * len(shape)
    s = itemsize
    for ax in reversed(order):
        st[ax] = s
        s *= shape[ax]
    return st


def c_indices(shape):
    """All index tuples in C (row-major) index order."""
    if not shape:
        return [()]
    out = [()]
    for d in shape:
        out = [i + (j,) for i in out for j in range(d)]
    return out


class Decoder:
    def __init__(self, schema):
        self.schema = schema
        self._dyn = {}
        self._ssz = {}

    # -- static facts about types -------------------------------------------------
    def dynamic(self, t):
        if t not in self._dyn:
            ty = self.schema[t]
            k = ty["k"]
            if k in ("sc", "ref", "uref"):
                v = False
            elif k == "str":
                v = True
            elif k == "struct":
                v = any(self.dynamic(f[1]) for f in ty["fields"])
            else:
                v = any(d is None for d in ty["shape"]) or self.dynamic(ty["item"])
            self._dyn[t] = v
        return self._dyn[t]

    def static_size(self, t):
        if t not in self._ssz:
            ty = self.schema[t]
            k = ty["k"]
            if k == "sc":
                v = DT[ty["t"]][1]
            elif k == "ref":
                v = 8
            elif k == "uref":
                v = 16
            elif k == "struct":
                v = sum(r8(self.static_size(f[1])) for f in ty["fields"])
            elif k == "array":
                n = 1
                for d in ty["shape"]:
                    n *= d
                v = r8(n * self.static_size(ty["item"]))
            else:
                raise DecodeError("no static size", k)
            self._ssz[t] = v
        return self._ssz[t]

    # -- decoding -------------------------------------------------------------------
    def i64(self, buf, off):
        if off < 0 or off + 8 > len(buf):
            raise DecodeError("read_out_of_buffer", f"word at {off}, buffer {len(buf)}")
        return _struct.unpack_from("<q", buf, off)[0]

    def decode(self, t, buf, off, bufid=0, layout=None, base=None, path=(), follow=False):
        """Returns (snapshot, end offset).  `layout`, if a list, receives
        (path, start, end, kind) for every part."""
        ty = self.schema[t]
        k = ty["k"]
        if k == "sc":
            fmt, sz = DT[ty["t"]]
            if off < 0 or off + sz > len(buf):
                raise DecodeError("read_out_of_buffer", f"scalar at {off}")
            if layout is not None:
                layout.append((path, off, off + sz, "sc"))
            return ("sc", bytes(buf[off : off + sz]).hex()), off + sz
        if k == "str":
            size = self.i64(buf, off)
            if size < 9 or off + size > len(buf):
                raise DecodeError("string_size_word", f"size {size} at {off} (buffer {len(buf)})")
            data = bytes(buf[off + 8 : off + size])
            # the text ends where the NUL padding begins (at least one terminator); a NUL inside the
            # text is a character like any other for the library's own reader
            z = len(data.rstrip(b"\x00"))
            if z == len(data):
                raise DecodeError("string_not_nul_terminated", f"at {off} size {size}")
            try:
                text = data[:z].decode("utf8")
            except UnicodeDecodeError as e:
                raise DecodeError("string_not_utf8", f"at {off}: {e}")
            if layout is not None:
                layout.append((path, off, off + size, "str"))
            return ("s", text), off + size
        if k == "ref":
            w = self.i64(buf, off)
            if layout is not None:
                layout.append((path, off, off + 8, "ref"))
            if w == NULL:
                return ("null",), off + 8
            tgt = off + w
            snap, _ = self.decode(ty["to"], buf, tgt, bufid, layout if follow else None, None, path + ("*",), follow)
            return ("ref", (bufid, tgt), snap), off + 8
        if k == "uref":
            w = self.i64(buf, off)
            m = self.i64(buf, off + 8)
            if layout is not None:
                layout.append((path, off, off + 16, "uref"))
            if w == NULL:
                if m != -1:
                    raise DecodeError("null_union_member_index", f"{m} at {off}")
                return ("unull",), off + 16
            if not (0 <= m < len(ty["members"])):
                raise DecodeError("union_member_index_out_of_range", f"{m} at {off}")
            tgt = off + w
            snap, _ = self.decode(ty["members"][m], buf, tgt, bufid, layout if follow else None, None, path + ("*",), follow)
            return ("uref", m, (bufid, tgt), snap), off + 16
        if k == "struct":
            return self._struct(t, ty, buf, off, bufid, layout, path, follow)
        if k == "array":
            return self._array(t, ty, buf, off, bufid, layout, path, follow)
        raise DecodeError("unknown kind", k)

    def _slot(self, what, obj_off, part_off):
        if (part_off - obj_off) % 8 != 0:
            raise DecodeError("part_not_on_slot_boundary", f"{what} at +{part_off - obj_off}")

    def _struct(self, t, ty, buf, off, bufid, layout, path, follow=False):
        fields = ty["fields"]
        out = []
        if not self.dynamic(t):
            pos = off
            for f in fields:
                snap, _ = self.decode(f[1], buf, pos, bufid, layout, off, path + (f[0],), follow)
                out.append((f[0], snap))
                pos += r8(self.static_size(f[1]))
            if layout is not None:
                layout.append((path, off, pos, "struct"))
            return ("st", out), pos
        size = self.i64(buf, off)
        if size < 8 or off + size > len(buf) or size % 8:
            raise DecodeError("struct_size_word", f"size {size} at {off} (buffer {len(buf)})")
        pos = off + 8
        vals = {}
        for f in fields:
            if not self.dynamic(f[1]):
                snap, _ = self.decode(f[1], buf, pos, bufid, layout, off, path + (f[0],), follow)
                vals[f[0]] = snap
                pos += r8(self.static_size(f[1]))
        dyn = [f for f in fields if self.dynamic(f[1])]
        table = pos
        data0 = table + 8 * (len(dyn) - 1)
        spans = []
        for j, f in enumerate(dyn):
            if j == 0:
                fo = data0
            else:
                rel = self.i64(buf, table + 8 * (j - 1))
                fo = off + rel
            if fo < data0 or fo >= off + size:
                raise DecodeError("dynamic_field_outside_object", f"{f[0]} at +{fo - off}, data area [{data0 - off},{size})")
            self._slot(f"dynamic field {f[0]}", off, fo)
            snap, end = self.decode(f[1], buf, fo, bufid, layout, off, path + (f[0],), follow)
            if end > off + size:
                raise DecodeError("dynamic_field_outside_object", f"{f[0]} ends at +{end - off} > size {size}")
            spans.append((fo, end, f[0]))
            vals[f[0]] = snap
        spans.sort()
        for (a0, a1, an), (b0, b1, bn) in zip(spans, spans[1:]):
            if b0 < a1:
                raise DecodeError("sibling_parts_overlap", f"{an} [{a0 - off},{a1 - off}) and {bn} [{b0 - off},{b1 - off})")
        if layout is not None:
            layout.append((path, off, off + size, "struct"))
        return ("st", [(f[0], vals[f[0]]) for f in fields]), off + size

    def _array(self, t, ty, buf, off, bufid, layout, path, follow=False):
        shape = list(ty["shape"])
        order = list(ty["order"])
        nd = len(shape)
        item = ty["item"]
        dyn_shape = any(d is None for d in shape)
        dyn_item = self.dynamic(item)
        pos = off
        size = None
        if dyn_shape or dyn_item:
            size = self.i64(buf, off)
            if size < 8 or off + size > len(buf) or size % 8:
                raise DecodeError("array_size_word", f"size {size} at {off} (buffer {len(buf)})")
            pos += 8
        if dyn_shape:
            for ax in range(nd):
                if shape[ax] is None:
                    d = self.i64(buf, pos)
                    if d < 0 or d > 1 << 32:
                        raise DecodeError("array_dimension_word", f"{d}")
                    shape[ax] = d
                    pos += 8
        n = 1
        for d in shape:
            n *= d
        isz = 8 if dyn_item else self.static_size(item)
        st = strides_for(shape, order, isz)
        if dyn_shape and nd > 1:
            stored = [self.i64(buf, pos + 8 * ax) for ax in range(nd)]
            pos += 8 * nd
            if n > 0 and stored != st:
                raise DecodeError("stored_strides_differ_from_shape_and_order", f"stored {stored} computed {st} shape {shape} order {order}")
        items = []
        idxs = c_indices(shape)
        if dyn_item:
            table = pos
            tend = table + 8 * n
            if tend > off + size:
                raise DecodeError("item_table_outside_object", f"table end +{tend - off} size {size}")
            spans = []
            for idx in idxs:
                eo = table + sum(i * s for i, s in zip(idx, st))
                rel = self.i64(buf, eo)
                io = off + rel
                if io < tend or io >= off + size:
                    raise DecodeError("item_outside_object", f"item {idx} at +{rel}, data area [{tend - off},{size})")
                self._slot(f"item {idx}", off, io)
                snap, end = self.decode(item, buf, io, bufid, layout, off, path + (idx,), follow)
                if end > off + size:
                    raise DecodeError("item_outside_object", f"item {idx} ends at +{end - off} > size {size}")
                spans.append((io, end, idx))
                items.append(snap)
            spans.sort()
            for (a0, a1, an), (b0, b1, bn) in zip(spans, spans[1:]):
                if b0 < a1:
                    raise DecodeError("sibling_parts_overlap", f"items {an} [{a0 - off},{a1 - off}) and {bn} [{b0 - off},{b1 - off})")
            end = off + size
        else:
            data = pos
            total = r8((data - off) + n * isz)
            if size is not None and size != total:
                raise DecodeError("array_size_word_ne_extent", f"size word {size}, header {data - off} + {n} items of {isz} rounded = {total}")
            if off + total > len(buf):
                raise DecodeError("read_out_of_buffer", f"array data end {off + total} buffer {len(buf)}")
            for idx in idxs:
                io = data + sum(i * s for i, s in zip(idx, st))
                snap, _ = self.decode(item, buf, io, bufid, layout, off, path + (idx,), follow)
                items.append(snap)
            end = off + total
        if layout is not None:
            layout.append((path, off, end, "array"))
        return ("ar", tuple(shape), items), end
