"""Reference model of an xobjects world: a graph of Python nodes.

Scalar leaves are `bytes` of the declared dtype (UNDEF until first written when
the input form does not define them); strings hold (text, capacity fixed at
creation); struct/array nodes have identity; a Ref leaf holds a Python
reference to a node or None; a UnionRef leaf holds (member index, node) or
(-1, None).  Nodes record where the system put them (observed, not predicted).

Also: seeded generation of value specifications (JSON, explicit, replayable)
and their materialisation into (constructor input, model node).
"""
import numpy as np

from .typegen import SC_DTYPE, SC_SIZE, is_dynamic, has_refs
from .layout import c_indices


class _Undef:
    def __repr__(self):
        return "UNDEF"


UNDEF = _Undef()


class StrNode:
    __slots__ = ("text", "cap", "loc")

    def __init__(self, text, cap):
        self.text = text
        self.loc = None
        self.cap = cap  # bytes available for data incl. terminating NUL (None: not yet observed)


class StructNode:
    __slots__ = ("t", "f", "loc")

    def __init__(self, t, f, loc=None):
        self.t, self.f, self.loc = t, f, loc


class ArrayNode:
    __slots__ = ("t", "shape", "items", "loc")

    def __init__(self, t, shape, items, loc=None):
        self.t, self.shape, self.items, self.loc = t, tuple(shape), items, loc

    def flat(self, idx):
        k = 0
        for i, d in zip(idx, self.shape):
            k = k * d + i
        return k


class RefLeaf:
    __slots__ = ("to",)

    def __init__(self, to=None):
        self.to = to


class URefLeaf:
    __slots__ = ("m", "to")

    def __init__(self, m=-1, to=None):
        self.m, self.to = m, to


# ------------------------------------------------------------------------------
# snapshots (comparable with handle readings and decoder output)


def snapshot(schema, t, node, depth=0):
    ty = schema[t]
    k = ty["k"]
    if k == "sc":
        return ("undef",) if node is UNDEF else ("sc", node.hex())
    if k == "str":
        return ("s", node.text)
    if k == "struct":
        return ("st", [(f[0], snapshot(schema, f[1], node.f[f[0]], depth)) for f in ty["fields"]])
    if k == "array":
        return ("ar", node.shape, [snapshot(schema, ty["item"], x, depth) for x in node.items])
    if k == "ref":
        if node.to is None:
            return ("null",)
        return ("ref", node.to.loc, snapshot(schema, ty["to"], node.to, depth + 1))
    if k == "uref":
        if node.to is None:
            return ("unull",)
        return ("uref", node.m, node.to.loc, snapshot(schema, ty["members"][node.m], node.to, depth + 1))
    raise ValueError(k)


def same(a, b):
    """Structural equality where ('undef',) matches any scalar."""
    if a == b:
        return True
    if type(a) is not tuple or type(b) is not tuple:
        if isinstance(a, list) and isinstance(b, list):
            return len(a) == len(b) and all(same(x, y) for x, y in zip(a, b))
        return False
    if a and a[0] == "undef":
        return bool(b) and b[0] in ("sc", "undef")
    if b and b[0] == "undef":
        return bool(a) and a[0] in ("sc", "undef")
    if len(a) != len(b):
        return False
    return all(same(x, y) for x, y in zip(a, b))


def first_diff(a, b, path=""):
    """Human-readable location of the first difference."""
    if same(a, b):
        return None
    if type(a) is tuple and type(b) is tuple and a and b and a[0] == b[0]:
        if a[0] == "st":
            for (n1, x), (n2, y) in zip(a[1], b[1]):
                d = first_diff(x, y, f"{path}.{n1}")
                if d:
                    return d
        if a[0] == "ar":
            if a[1] != b[1]:
                return f"{path}: shape {a[1]} vs {b[1]}"
            for i, (x, y) in enumerate(zip(a[2], b[2])):
                d = first_diff(x, y, f"{path}[{i}]")
                if d:
                    return d
        if a[0] == "ref":
            if a[1] != b[1]:
                return f"{path}: ref target location {a[1]} vs {b[1]}"
            return first_diff(a[2], b[2], path + ".*")
        if a[0] == "uref":
            if a[1] != b[1]:
                return f"{path}: union member {a[1]} vs {b[1]}"
            if a[2] != b[2]:
                return f"{path}: ref target location {a[2]} vs {b[2]}"
            return first_diff(a[3], b[3], path + ".*")
    return f"{path}: {str(a)[:80]} vs {str(b)[:80]}"


def crosses_ref(diff):
    return diff is not None and ".*" in diff.split(":")[0]


def adopt_locs(snap_model, snap_handle, schema, t, node):
    """Fill unknown target locations of the model from a handle reading
    (locations are observed, never predicted)."""
    ty = schema[t]
    k = ty["k"]
    if k == "struct" and type(snap_handle) is tuple and snap_handle[0] == "st":
        for f, (_, sh) in zip(ty["fields"], snap_handle[1]):
            adopt_locs(None, sh, schema, f[1], node.f[f[0]])
    elif k == "array" and type(snap_handle) is tuple and snap_handle[0] == "ar":
        if len(snap_handle[2]) == len(node.items):
            for x, sh in zip(node.items, snap_handle[2]):
                adopt_locs(None, sh, schema, ty["item"], x)
    elif k == "ref" and node.to is not None and type(snap_handle) is tuple and snap_handle[0] == "ref":
        if node.to.loc is None:
            node.to.loc = snap_handle[1]
        adopt_locs(None, snap_handle[2], schema, ty["to"], node.to)
    elif k == "uref" and node.to is not None and type(snap_handle) is tuple and snap_handle[0] == "uref":
        if node.to.loc is None:
            node.to.loc = snap_handle[2]
        if 0 <= node.m < len(ty["members"]):
            adopt_locs(None, snap_handle[3], schema, ty["members"][node.m], node.to)


# ------------------------------------------------------------------------------
# node utilities


def copy_node(schema, t, node, share_refs):
    """Value copy.  Referents are shared when source and copy live in the same
    buffer, duplicated otherwise."""
    ty = schema[t]
    k = ty["k"]
    if k == "sc":
        return node
    if k == "str":
        return StrNode(node.text, node.cap)
    if k == "struct":
        return StructNode(t, {f[0]: copy_node(schema, f[1], node.f[f[0]], share_refs) for f in ty["fields"]})
    if k == "array":
        return ArrayNode(t, node.shape, [copy_node(schema, ty["item"], x, share_refs) for x in node.items])
    if k == "ref":
        if node.to is None or share_refs:
            return RefLeaf(node.to)
        return RefLeaf(copy_node(schema, ty["to"], node.to, False))
    if k == "uref":
        if node.to is None or share_refs:
            return URefLeaf(node.m, node.to)
        return URefLeaf(node.m, copy_node(schema, ty["members"][node.m], node.to, False))


def assign_into(schema, t, dst, src):
    """In-place content update of an existing compound node from a same-shape
    value node (the size of an instance cannot change).  Returns the node to
    store in the parent (leaves are replaced, compounds keep identity)."""
    ty = schema[t]
    k = ty["k"]
    if k == "sc":
        return src
    if k == "str":
        dst.text = src.text
        return dst
    if k == "struct":
        for f in ty["fields"]:
            if f[0] in src.f:
                dst.f[f[0]] = assign_into(schema, f[1], dst.f[f[0]], src.f[f[0]])
        return dst
    if k == "array":
        for i, x in enumerate(src.items):
            dst.items[i] = assign_into(schema, ty["item"], dst.items[i], x)
        return dst
    return src  # ref / uref leaves rebind


def decl_default(f):
    """Declared default of a struct field ([name, type, {"default"|"default_factory": v}?])."""
    if len(f) > 2:
        return f[2].get("default", f[2].get("default_factory"))
    return None


def default_node(schema, t, declared=None):
    ty = schema[t]
    k = ty["k"]
    if k == "sc":
        dt = np.dtype(SC_DTYPE[ty["t"]])
        if declared is not None:
            v = float(declared["f"]) if "f" in declared else int(declared["i"])
            return dt.type(v).tobytes()
        return dt.type(0).tobytes()
    if k == "struct":
        return StructNode(t, {f[0]: default_node(schema, f[1], decl_default(f)) for f in ty["fields"]})
    if k == "array":
        n = 1
        for d in ty["shape"]:
            n *= d
        it = ty["item"]
        if schema[it]["k"] == "sc":
            return ArrayNode(t, ty["shape"], [UNDEF] * n)
        return ArrayNode(t, ty["shape"], [default_node(schema, it) for _ in range(n)])
    if k == "ref":
        return RefLeaf(None)
    if k == "uref":
        return URefLeaf(-1, None)
    raise ValueError(f"no default for {k}")


def node_leaves(schema, t, node, seen=None):
    """Number of leaves below a model node (reference targets counted once)."""
    if seen is None:
        seen = set()
    ty = schema[t]
    k = ty["k"]
    if k in ("sc", "str"):
        return 1
    if k == "struct":
        return sum(node_leaves(schema, f[1], node.f[f[0]], seen) for f in ty["fields"]) or 1
    if k == "array":
        if schema[ty["item"]]["k"] == "sc":
            return len(node.items) or 1
        return sum(node_leaves(schema, ty["item"], x, seen) for x in node.items) or 1
    if node.to is None or id(node.to) in seen:
        return 1
    seen.add(id(node.to))
    tt = ty["to"] if k == "ref" else ty["members"][node.m]
    return 1 + node_leaves(schema, tt, node.to, seen)


def spec_leaves(spec):
    """Rough number of leaves a value specification will create."""
    if not isinstance(spec, dict):
        return 1
    if "nd" in spec:
        n = 1
        for d in spec["nd"]["shape"]:
            n *= d
        return max(1, n)
    if "ndfold" in spec:
        n = 1
        for d in list(spec["ndfold"]["shape"]) + list(spec["ndfold"]["ishape"]):
            n *= d
        return max(1, n)
    if "l" in spec:
        return sum(spec_leaves(x) for x in spec["l"]) or 1
    if "d" in spec:
        return sum(spec_leaves(x) for x in spec["d"].values()) or 1
    if "v" in spec:
        return spec_leaves(spec["v"])
    if "dims" in spec:
        n = 1
        for d in spec["shape"]:
            n *= d
        return max(1, n)
    return 1


def node_at(schema, t, node, path):
    """Follow a path ([fname | [i..] | '*']...) -> (type idx, node, parent, key)."""
    parent, key = None, None
    for el in path:
        ty = schema[t]
        if el == "*":
            if ty["k"] == "ref":
                t, parent, key, node = ty["to"], node, "*", node.to
            else:
                t, parent, key, node = ty["members"][node.m], node, "*", node.to
        elif isinstance(el, str):
            ft = [f for f in ty["fields"] if f[0] == el][0]
            parent, key = node, el
            t, node = ft[1], node.f[el]
        else:
            k = node.flat(tuple(el))
            parent, key = node, k
            t, node = ty["item"], node.items[k]
        if node is None:
            return t, None, parent, key
    return t, node, parent, key


def store_at(parent, key, value):
    if isinstance(parent, StructNode):
        parent.f[key] = value
    elif isinstance(parent, ArrayNode):
        parent.items[key] = value
    else:
        raise ValueError("cannot store through a reference leaf")


def enum_paths(schema, t, node, maxn=400, through_refs=True):
    """All (path, type idx, node) below node, depth-first."""
    out = []

    def rec(t, node, path, seen_ref):
        if len(out) >= maxn:
            return
        out.append((path, t, node))
        ty = schema[t]
        k = ty["k"]
        if k == "struct":
            for f in ty["fields"]:
                rec(f[1], node.f[f[0]], path + [f[0]], seen_ref)
        elif k == "array":
            for idx, x in zip(c_indices(node.shape), node.items):
                rec(ty["item"], x, path + [list(idx)], seen_ref)
        elif k == "ref" and node.to is not None and through_refs and seen_ref < 2:
            rec(ty["to"], node.to, path + ["*"], seen_ref + 1)
        elif k == "uref" and node.to is not None and through_refs and seen_ref < 2:
            rec(ty["members"][node.m], node.to, path + ["*"], seen_ref + 1)

    rec(t, node, [], 0)
    return out


# ------------------------------------------------------------------------------
# value specifications


INT_INTERESTING = {
    "Int8": [-128, 127],
    "UInt8": [0, 255],
    "Int16": [-32768, 32767],
    "UInt16": [0, 65535],
    "Int32": [-(2**31), 2**31 - 1],
    "UInt32": [0, 2**32 - 1],
    "Int64": [-(2**63), 2**63 - 1],
    "UInt64": [0, 2**64 - 1],
}
STRINGS = ["", "a", "ab", "hello", "abcdefg", "abcdefgh", "x" * 15, "x" * 16, "héllo", "日本", "ß∂ƒ©", "é" * 4, "emoji🙂", "tab\there", "a\x00b", "nul\x00in\x00side"]


def gen_scalar(rng, tname):
    dt = np.dtype(SC_DTYPE[tname])
    r = rng.random()
    if tname.startswith("Float"):
        if r < 0.35:
            v = dt.type(rng.choice([0.0, -0.0, 1.0, -1.0, float("inf"), float("-inf"), float("nan")]))
        elif r < 0.45:
            v = np.frombuffer(bytes([1] + [0] * (dt.itemsize - 1)), dtype=dt)[0]  # smallest subnormal
        elif r < 0.55:
            v = dt.type(np.finfo(dt).max if rng.random() < 0.5 else np.finfo(dt).tiny)
        else:
            v = dt.type(rng.uniform(-1e6, 1e6)) if rng.random() < 0.5 else dt.type(rng.randint(-1000, 1000) / 8)
    else:
        lo, hi = INT_INTERESTING[tname]
        if r < 0.3:
            v = dt.type(rng.choice([lo, hi]))
        elif r < 0.5:
            v = dt.type(rng.choice([0, 1, -1 if lo < 0 else 2]))
        elif r < 0.6:
            v = dt.type(rng.randint(lo, hi))
        else:
            v = dt.type(rng.randint(max(lo, -100), min(hi, 100)))
    return {"x": v.tobytes().hex()}


def scalar_py(tname, spec):
    dt = np.dtype(SC_DTYPE[tname])
    return np.frombuffer(bytes.fromhex(spec["x"]), dtype=dt)[0].item()


def nest(flat, shape):
    if len(shape) == 0:
        return flat[0]
    if len(shape) == 1:
        return list(flat[: shape[0]])
    n = 1
    for d in shape[1:]:
        n *= d
    return [nest(flat[i * n : (i + 1) * n], shape[1:]) for i in range(shape[0])]


class ValueGen:
    """Seeded generation of value specs.  `avail(t)` -> list of (k, bufid) of
    live top-level objects of type t (for copy / bind forms)."""

    def __init__(self, rng, schema, sw, avail=None):
        self.rng = rng
        self.schema = schema
        self.sw = sw
        self.avail = avail or (lambda t: [])

    def gen(self, t, top=False, depth=0, dims_ok=False):
        rng, schema = self.rng, self.schema
        ty = schema[t]
        k = ty["k"]
        if k == "sc":
            return gen_scalar(rng, ty["t"])
        if k == "str":
            if self.sw.get("str_cap") and rng.random() < 0.2:
                return {"cap": rng.choice([0, 1, 2, 7, 8, 9, 16, 24, 30])}
            return {"s": rng.choice(STRINGS)}
        if k == "struct":
            if self.sw.get("xobj_input") and rng.random() < (0.25 if top else 0.1):
                cands = self.avail(t)
                if cands:
                    return {"obj": rng.choice(cands)[0]}
            d = {}
            for f in ty["fields"]:
                if schema[f[1]]["k"] == "sc" and self.sw.get("omit") and rng.random() < 0.15:
                    continue
                d[f[0]] = self.gen(f[1], depth=depth + 1, dims_ok=True)
            return {"d": d}
        if k == "array":
            return self.gen_array(t, ty, top, depth, dims_ok or top)
        if k == "ref":
            r = rng.random()
            if r < 0.2 or depth > 5:
                return None
            cands = self.avail(ty["to"])
            if cands and r < 0.6:
                return {"obj": rng.choice(cands)[0]}
            return self.gen(ty["to"], depth=depth + 1)
        if k == "uref":
            r = rng.random()
            if r < 0.2 or depth > 5:
                if self.sw.get("xobj_input") and r < 0.07:
                    # null, given as a stand-alone (null) union reference object, in the holder's buffer or elsewhere
                    return {"null_union": "same" if r < 0.045 else "other"}
                return None
            m = rng.randrange(len(ty["members"]))
            cands = self.avail(ty["members"][m])
            if cands and r < 0.6:
                return {"obj": rng.choice(cands)[0], "m": m}
            return {"m": m, "v": self.gen(ty["members"][m], depth=depth + 1)}
        raise ValueError(k)

    def gen_array(self, t, ty, top, depth, dims_ok=False):
        rng, schema = self.rng, self.schema
        item = ty["item"]
        ity = schema[item]
        if self.sw.get("xobj_input") and rng.random() < (0.2 if top else 0.08):
            cands = self.avail(t)
            if ity["k"] == "sc" and top and rng.random() < 0.5:
                # array objects of other classes with the same item type and number of axes
                for t2, ty2 in enumerate(schema):
                    if t2 != t and ty2["k"] == "array" and ty2["item"] == item and len(ty2["shape"]) == len(ty["shape"]):
                        cands = cands + [c + ("other",) for c in self.avail(t2)]
            if cands:
                c = rng.choice(cands)
                # (the source object given through its constructor handle or through a view rebuilt from
                # the bytes: the two keep their shape in different containers)
                return {"obj": c[0], "view": rng.random() < 0.4}
        maxext = self.sw.get("max_extent", 4)
        shape = [d if d is not None else rng.choice([0, 1, 2, 2, 3, maxext]) for d in ty["shape"]]
        if depth > 2:
            shape = [d if sd is not None else min(d, 2) for d, sd in zip(shape, ty["shape"])]
        dyn_shape = any(d is None for d in ty["shape"])
        nd = len(shape)
        n = 1
        for d in shape:
            n *= d
        static_item = not is_dynamic(schema, item)
        r = rng.random()
        # dimensions form (top level or struct field; items of static size)
        dims_ok = dims_ok and self.sw.get("dims_form")
        if dyn_shape and static_item and dims_ok and r < 0.12:
            return {"dims": [shape[i] for i, d in enumerate(ty["shape"]) if d is None], "shape": shape}
        if ity["k"] == "sc" and self.sw.get("nd_input") and r < 0.45:
            src = rng.choice([ity["t"], ity["t"], "Int64", "Float64", "Int32"])
            dt = np.dtype(SC_DTYPE[ity["t"]])
            if src == ity["t"]:
                vals = [bytes.fromhex(gen_scalar(rng, src)["x"]) for _ in range(n)]
                hexd = b"".join(vals).hex()
            else:
                lo = 0 if ity["t"].startswith("U") else -100
                sdt = np.dtype(SC_DTYPE[src])
                hexd = np.array([rng.randint(lo, 100) for _ in range(n)], dtype=sdt).tobytes().hex()
            layout = rng.choice(["C", "C", "F", "strided", "be"]) if nd > 1 or rng.random() < 0.3 else "C"
            return {"nd": {"hex": hexd, "src": src, "shape": shape, "layout": layout}}
        if ity["k"] == "array" and self.sw.get("nd_input") and 0.45 <= r < 0.7 and n > 0 and schema[ity["item"]]["k"] == "sc" and all(d is not None and d > 0 for d in ity["shape"]):
            # items are static arrays of numbers: one ndarray whose trailing axes are the items' own
            st = schema[ity["item"]]["t"]
            ishape = list(ity["shape"])
            m = n
            for d in ishape:
                m *= d
            hexd = b"".join(bytes.fromhex(gen_scalar(rng, st)["x"]) for _ in range(m)).hex()
            return {"ndfold": {"hex": hexd, "src": st, "shape": shape, "ishape": ishape, "layout": rng.choice(["C", "C", "F", "strided"])}}
        # nested lists: a list cannot carry the trailing extents of an empty leading dimension
        if n == 0 and nd > 1 and ity["k"] == "sc" and any(d == 0 for d in ty["shape"]):
            # a static zero-length dimension: the shape cannot be altered to suit the input form
            return {"nd": {"hex": "", "src": ity["t"], "shape": shape, "layout": "C"}}
        if n == 0 and nd > 1:
            if dyn_shape and static_item and dims_ok:
                return {"dims": [shape[i] for i, d in enumerate(ty["shape"]) if d is None], "shape": shape}
            if ity["k"] == "sc" and self.sw.get("nd_input"):
                return {"nd": {"hex": "", "src": ity["t"], "shape": shape, "layout": "C"}}
            shape = [max(d, 1) for d in shape]
            n = 1
            for d in shape:
                n *= d
        return {"l": [self.gen(item, depth=depth + 1) for _ in range(n)], "shape": shape}


class Materialiser:
    """Turns a value spec into (constructor input, model node).

    env: classes (aligned with schema), objs (list of world objects with
    .handle()/.node/.bufid/.alive), holder_buf (bufid of the buffer the new
    value will live in, or None when it is a fresh buffer)."""

    def __init__(self, schema, classes, objs, holder_buf):
        self.schema = schema
        self.helper_allocs = []
        self.classes = classes
        self.objs = objs
        self.holder_buf = holder_buf
        self.foreign = 0
        self.aliased = 0
        self.twin = False

    def _obj(self, k):
        if k >= len(self.objs) or self.objs[k] is None or not self.objs[k].alive:
            raise KeyError(f"object {k} not available")
        return self.objs[k]

    def mat(self, t, spec):
        schema = self.schema
        ty = schema[t]
        k = ty["k"]
        if k == "sc":
            return scalar_py(ty["t"], spec), bytes.fromhex(spec["x"])
        if k == "str":
            if "cap" in spec:
                return int(spec["cap"]), StrNode("", max(1, int(spec["cap"])))  # (capacity 0 still reserves the terminating NUL)
            # documented minimal capacity: data + NUL, rounded to the slot after the 8-byte header
            if spec.get("as_obj"):
                from . import seams

                if spec.get("obj_cap") and len(spec["s"].encode()) + 1 <= spec["obj_cap"]:
                    if spec["s"]:
                        # (text followed by NUL padding: a String object whose capacity exceeds what its text needs)
                        sobj = seams.xo.String(spec["s"] + "\x00" * (int(spec["obj_cap"]) - len(spec["s"].encode()) - 1), _context=seams.xo.ContextCpu())
                    else:
                        sobj = seams.xo.String(int(spec["obj_cap"]), _context=seams.xo.ContextCpu())
                else:
                    sobj = seams.xo.String(spec["s"], _context=seams.xo.ContextCpu())
                return sobj, StrNode(spec["s"], (len(spec["s"].encode()) + 1 + 7) // 8 * 8)
            return spec["s"], StrNode(spec["s"], (len(spec["s"].encode()) + 1 + 7) // 8 * 8)
        if k == "struct":
            if "obj" in spec:
                o = self._obj(spec["obj"])
                if o.t != t:
                    raise KeyError("type mismatch")
                same_buf = o.bufid == self.holder_buf
                return o.handle(), copy_node(schema, t, o.node, same_buf)
            py, f = {}, {}
            for fl in ty["fields"]:
                if fl[0] in spec["d"]:
                    p, nd = self.mat(fl[1], spec["d"][fl[0]])
                    py[fl[0]] = p
                    f[fl[0]] = nd
                else:
                    f[fl[0]] = default_node(schema, fl[1], decl_default(fl))
            return py, StructNode(t, f)
        if k == "array":
            return self.mat_array(t, ty, spec)
        if k == "ref":
            if spec is None:
                return None, RefLeaf(None)
            if "obj" in spec and isinstance(spec, dict) and set(spec) <= {"obj", "view"}:
                o = self._obj(spec["obj"])
                if o.t != ty["to"]:
                    a, b = schema[o.t], schema[ty["to"]]
                    if a["k"] == "array" and b["k"] == "array" and a["name"] == b["name"] and a["shape"] == b["shape"] and a["item"] == b["item"] and schema[a["item"]]["k"] == "sc":
                        # an array object of ANOTHER class that merely has the same generated name (the name
                        # does not spell the axis order): not the referred type, hence data for a new,
                        # independent object of the referred type with the same values
                        self.twin = True
                        return o.handle(), RefLeaf(ArrayNode(ty["to"], o.node.shape, list(o.node.items)))
                    raise KeyError("type mismatch")
                if o.bufid == self.holder_buf:
                    self.aliased += 1
                    return o.handle(), RefLeaf(o.node)
                self.foreign += 1
                return o.handle(), RefLeaf(copy_node(schema, ty["to"], o.node, False))
            if "part" in spec:
                o = self._obj(spec["part"][0])
                pt, pnode, _, _ = node_at(schema, o.t, o.node, spec["part"][1])
                if pt != ty["to"] or pnode is None:
                    raise KeyError("part mismatch")
                view = o.walk(spec["part"][1])
                if o.bufid == self.holder_buf:
                    self.aliased += 1
                    if pnode.loc is None:
                        pnode.loc = (o.bufid, int(view._offset))
                    return view, RefLeaf(pnode)
                self.foreign += 1
                return view, RefLeaf(copy_node(schema, ty["to"], pnode, False))
            p, nd = self.mat(ty["to"], spec)
            return p, RefLeaf(nd)
        if k == "uref":
            if spec is None:
                return None, URefLeaf(-1, None)
            if "null_union" in spec:
                from . import seams

                buf = None
                if spec["null_union"] == "same" and self.holder_buf is not None:
                    for o in self.objs:
                        if o is not None and getattr(o, "bufid", None) == self.holder_buf:
                            buf = o.buf
                            break
                if buf is not None:
                    u = self.classes[t](None, _buffer=buf)
                    self.helper_allocs.append((buf, int(u._offset), 16))  # (a helper object of the harness, in a world buffer)
                    return u, URefLeaf(-1, None)
                return self.classes[t](None, _context=seams.xo.ContextCpu()), URefLeaf(-1, None)
            m = spec["m"]
            mt = ty["members"][m]
            if "part" in spec:
                o = self._obj(spec["part"][0])
                pt, pnode, _, _ = node_at(schema, o.t, o.node, spec["part"][1])
                if pt != mt or pnode is None:
                    raise KeyError("part mismatch")
                view = o.walk(spec["part"][1])
                if o.bufid == self.holder_buf:
                    self.aliased += 1
                    if pnode.loc is None:
                        pnode.loc = (o.bufid, int(view._offset))
                    return view, URefLeaf(m, pnode)
                self.foreign += 1
                return view, URefLeaf(m, copy_node(schema, mt, pnode, False))
            if "obj" in spec:
                o = self._obj(spec["obj"])
                if o.t != mt:
                    raise KeyError("type mismatch")
                val = o.handle()
                if spec.get("via_union"):
                    # the value is itself a (stand-alone) union reference that refers to the object
                    val = self.classes[t](val, _buffer=o.buf)
                if o.bufid == self.holder_buf:
                    self.aliased += 1
                    return val, URefLeaf(m, o.node)
                self.foreign += 1
                return val, URefLeaf(m, copy_node(schema, mt, o.node, False))
            p, nd = self.mat(mt, spec["v"])
            from .typegen import type_name

            return (type_name(schema, mt), p), URefLeaf(m, nd)
        raise ValueError(k)

    def mat_array(self, t, ty, spec):
        schema = self.schema
        item = ty["item"]
        if "obj" in spec:
            o = self._obj(spec["obj"])
            hnd = o.view() if spec.get("view") else o.handle()
            if o.t != t:
                so = schema[o.t]
                static_ok = all(d is None or d == n for d, n in zip(ty["shape"], o.node.shape))
                if so["k"] == "array" and schema[so["item"]]["k"] == "sc" and so["item"] == item and len(so["shape"]) == len(ty["shape"]) and static_ok:
                    # an array object of another class (other axis order / static vs dynamic shape) with
                    # the same item type and a fitting shape: an accepted input form, element by element
                    return hnd, ArrayNode(t, o.node.shape, list(o.node.items))
                raise KeyError("type mismatch")
            return hnd, copy_node(schema, t, o.node, o.bufid == self.holder_buf)
        if "dims" in spec:
            shape = spec["shape"]
            n = 1
            for d in shape:
                n *= d
            if schema[item]["k"] == "sc":
                items = [UNDEF] * n
            else:
                items = [default_node(schema, item) for _ in range(n)]
            return tuple(int(d) for d in spec["dims"]), ArrayNode(t, shape, items)
        if "nd" in spec:
            nd = spec["nd"]
            shape = tuple(nd["shape"])
            sdt = np.dtype(SC_DTYPE[nd["src"]])
            tdt = np.dtype(SC_DTYPE[schema[item]["t"]])
            a = np.frombuffer(bytes.fromhex(nd["hex"]), dtype=sdt).reshape(shape)
            if nd["layout"] == "be":
                arr = a.astype(sdt.newbyteorder(">"))  # same values, non-native byte order
            elif nd["layout"] == "F":
                arr = np.asfortranarray(a)
            elif nd["layout"] == "strided":
                big = np.zeros(tuple(2 * d for d in shape), dtype=sdt)
                sl = tuple(slice(None, None, 2) for _ in shape)
                big[sl] = a
                arr = big[sl]
            else:
                arr = a.copy()
            conv = a.astype(tdt)
            items = [conv[idx].tobytes() for idx in c_indices(shape)]
            return arr, ArrayNode(t, shape, items)
        if "ndfold" in spec:
            nd = spec["ndfold"]
            shape, ishape = tuple(nd["shape"]), tuple(nd["ishape"])
            dt = np.dtype(SC_DTYPE[nd["src"]])
            a = np.frombuffer(bytes.fromhex(nd["hex"]), dtype=dt).reshape(shape + ishape)
            if nd["layout"] == "F":
                arr = np.asfortranarray(a)
            elif nd["layout"] == "strided":
                big = np.zeros(tuple(2 * d for d in a.shape), dtype=dt)
                sl = tuple(slice(None, None, 2) for _ in a.shape)
                big[sl] = a
                arr = big[sl]
            else:
                arr = a.copy()
            nodes = [ArrayNode(item, ishape, [a[idx + jdx].tobytes() for jdx in c_indices(ishape)]) for idx in c_indices(shape)]
            return arr, ArrayNode(t, shape, nodes)
        shape = tuple(spec["shape"])
        pys, nodes = [], []
        for s in spec["l"]:
            p, n = self.mat(item, s)
            pys.append(p)
            nodes.append(n)
        return nest(pys, shape), ArrayNode(t, shape, nodes)
