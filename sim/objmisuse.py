"""Misuse catalogue (C11): operations that cannot be honoured.

Kinds (exactly the classes named in the property statement):
  index_oob        index with a component >= extent (all arrays), or negative
                   (arrays of statically sized items, where the library's own
                   bound check defines it as outside the shape) — get or set
  array_shape      array update with a different length or shape
  string_long      string longer than the space fixed at creation
  items_large      same-length list whose dynamically sized items do not fit
  union_nonmember  union value whose type is not a member
  ctx_mismatch     _buffer from one context together with another _context
  offset_nobuf     explicit _offset without a buffer
Oracle: an exception is raised (type not prescribed) and the value of every
object that existed before the step, and the bytes of its extent, are unchanged.
"""
import numpy as np

from . import model as M, typegen
from .core import exc_sig, quarantined

KINDS = ["index_oob", "index_oob", "array_shape", "array_shape", "array_dims", "scalar_sequence", "array_nested_deeper", "misfit_at_offset", "string_long", "string_long", "items_large", "items_large", "struct_partial", "union_nonmember", "union_nonmember", "ctx_mismatch", "offset_nobuf", "negative_size", "string_update_method"]


def gen(gs, w):
    rng = gs.rng
    kinds = list(KINDS)
    rng.shuffle(kinds)
    for kind in kinds:
        if quarantined("misuse." + kind):
            continue
        op = globals()["gen_" + kind](gs, w)
        if op is not None:
            op["op"] = "misuse"
            op["kind"] = kind
            return op
    return None


def _arrays(gs, w, pred=lambda s, t, n: True):
    return gs._pick_path(w, lambda s, t, n, p: s[t]["k"] == "array" and pred(s, t, n)) or _top_array(gs, w, pred)


def _top_array(gs, w, pred):
    cands = [o for o in w.live_objs() if w.schema[o.t]["k"] == "array" and pred(w.schema, o.t, o.node)]
    if not cands:
        return None
    o = gs.rng.choice(cands)
    return o, [], o.t, o.node


def gen_index_oob(gs, w):
    rng = gs.rng
    got = _arrays(gs, w)
    if got is None:
        return None
    o, p, t, n = got
    ty = w.schema[t]
    shape = n.shape
    static_item = not typegen.is_dynamic(w.schema, ty["item"])
    idx = [rng.randrange(d) if d > 0 else 0 for d in shape]
    ax = rng.randrange(len(shape))
    if static_item and rng.random() < 0.35:
        idx[ax] = rng.choice([-1, -shape[ax] - 1, -7])
    else:
        idx[ax] = shape[ax] + rng.choice([0, 0, 1, 5])
    if static_item and rng.random() < 0.2:
        # more entries than the array has axes
        idx = [rng.randrange(d) if d > 0 else 0 for d in shape] + [rng.choice([0, 0, 1, 99])]
    mode = "get"
    value = None
    if w.schema[ty["item"]]["k"] == "sc" and rng.random() < 0.6:
        mode = "set"
        value = M.gen_scalar(rng, w.schema[ty["item"]]["t"])
    return {"obj": o.k, "path": p, "idx": idx, "mode": mode, "value": value, "via": gs._via(o)}


def gen_array_shape(gs, w):
    rng = gs.rng
    got = gs._pick_path(w, lambda s, t, n, p: s[t]["k"] == "array" and not typegen.has_refs(s, t))
    if got is None:
        return None
    o, p, t, n = got
    ty = w.schema[t]
    shape = list(n.shape)
    r = rng.random()
    new = list(shape)
    if len(shape) > 1 and r < 0.4 and len(set(shape)) > 1:
        # same number of items, other shape
        new = shape[::-1]
    else:
        ax = rng.randrange(len(shape))
        new[ax] = max(0, shape[ax] + rng.choice([1, 1, -1, 2]))
    if new == shape:
        new[0] = shape[0] + 1
    cnt = 1
    for d in new:
        cnt *= d
    if cnt == 0 and len(new) > 1:
        return None
    if cnt > 60:
        return None
    items = []
    for _ in range(cnt):
        v = _plain(gs, w, ty["item"])
        if v is None:
            return None
        items.append(v)
    # the misfitting value as plain data, or as an xobject of the same array class (which may
    # happen to have the same byte size although its shape differs)
    ity = w.schema[ty["item"]]
    if ity["k"] == "sc" and rng.random() < 0.35:
        # an ndarray of another shape; sometimes with one more axis whose leading lengths match
        shp = list(shape) + [rng.choice([2, 3])] if rng.random() < 0.5 and cnt_of(shape) > 0 else new
        n = cnt_of(shp)
        if 0 < n <= 120:
            hexd = "".join(M.gen_scalar(rng, ity["t"])["x"] for _ in range(n))
            return {"obj": o.k, "path": p, "value": {"nd": {"hex": hexd, "src": ity["t"], "shape": shp, "layout": "C"}}, "via": gs._via(o)}
    return {"obj": o.k, "path": p, "value": {"l": items, "shape": new}, "as_obj": rng.random() < 0.35, "via": gs._via(o)}


def cnt_of(shape):
    n = 1
    for d in shape:
        n *= d
    return n


def gen_scalar_sequence(gs, w):
    """A sequence assigned to a scalar field or item: a value too large for the space of a number."""
    rng = gs.rng
    got = gs._pick_path(w, lambda s, t, n, p: s[t]["k"] == "sc")
    if got is None:
        return None
    o, p, t, n = got
    k = rng.choice([2, 3, 5])
    return {"obj": o.k, "path": p, "values": [M.gen_scalar(rng, w.schema[t]["t"]) for _ in range(k)], "as_nd": rng.random() < 0.4, "via": gs._via(o)}


def gen_array_nested_deeper(gs, w):
    """A list of lists whose outer length matches an array of numbers with fewer axes."""
    rng = gs.rng
    got = gs._pick_path(w, lambda s, t, n, p: s[t]["k"] == "array" and s[s[t]["item"]]["k"] == "sc" and len(n.items) > 0)
    if got is None:
        return None
    o, p, t, n = got
    it = w.schema[w.schema[t]["item"]]["t"]
    inner = rng.choice([2, 3])
    return {"obj": o.k, "path": p, "inner": inner, "values": [M.gen_scalar(rng, it) for _ in range(len(n.items) * inner)], "via": gs._via(o)}


def gen_array_dims(gs, w):
    """The dimensions form (an integer / a tuple of the dynamic dimensions) assigned to an
    existing array whose shape it does not describe: the size of an instance cannot change."""
    rng = gs.rng
    got = gs._pick_path(w, lambda s, t, n, p: s[t]["k"] == "array" and any(d is None for d in s[t]["shape"]) and not typegen.is_dynamic(s, s[t]["item"]))
    if got is None:
        return None
    o, p, t, n = got
    ty = w.schema[t]
    dyn = [i for i, d in enumerate(ty["shape"]) if d is None]
    cur = [n.shape[i] for i in dyn]
    total = 1
    for d in n.shape:
        total *= d
    cand = [[c + rng.choice([1, 2, 5]) for c in cur], [max(0, c - 1) for c in cur]]
    if len(dyn) == 1:
        cand.append([total])  # the item count is not the length of the dynamic dimension (N-D arrays)
        cand.append([total + 1])
    dims = rng.choice([c for c in cand if c != cur] or [[cur[0] + 1] + cur[1:]])
    return {"obj": o.k, "path": p, "dims": dims, "via": gs._via(o)}


def _plain(gs, w, t, depth=0):
    """Small plain-data value of type t (shapes of static dims respected)."""
    ty = w.schema[t]
    k = ty["k"]
    rng = gs.rng
    if k == "sc":
        return M.gen_scalar(rng, ty["t"])
    if k == "str":
        return {"s": rng.choice(["", "a", "ab"])}
    if k == "struct":
        d = {}
        for f in ty["fields"]:
            v = _plain(gs, w, f[1], depth + 1)
            if v is None:
                return None
            d[f[0]] = v
        return {"d": d}
    if k == "array":
        shape = [d if d is not None else 1 for d in ty["shape"]]
        n = 1
        for d in shape:
            n *= d
        its = [_plain(gs, w, ty["item"], depth + 1) for _ in range(n)]
        if any(x is None for x in its):
            return None
        return {"l": its, "shape": shape}
    return None


def too_long(rng, cap):
    """A string that does not fit `cap` bytes (data + NUL, slot-rounded): plain
    ASCII well beyond it, or multi-byte text whose *character* count would fit
    while its UTF-8 length does not."""
    capr = (cap + 7) // 8 * 8
    r = rng.random()
    if r < 0.5 or capr < 4:
        return rng.choice("yzq") * (capr + rng.choice([0, 1, 9, 40]))
    if r < 0.8:
        k = capr // 2 + rng.choice([0, 1])  # 2k+1 > capr, k+1 <= capr
        return "é" * max(k, 1)
    k = capr // 3 + 1  # 3k+1 > capr
    return "日" * k


def gen_string_long(gs, w):
    rng = gs.rng
    got = gs._pick_path(w, lambda s, t, n, p: s[t]["k"] == "str" and n.cap is not None)
    if got is None:
        return None
    o, p, t, n = got
    # len + NUL > capacity, beyond any slot rounding of the capacity
    return {"obj": o.k, "path": p, "value": {"s": too_long(rng, n.cap)}, "via": gs._via(o)}


def gen_items_large(gs, w):
    rng = gs.rng
    got = gs._pick_path(w, lambda s, t, n, p: s[t]["k"] == "array" and s[s[t]["item"]]["k"] == "str" and len(n.items) > 0 and all(x.cap is not None for x in n.items))
    if got is None:
        return None
    o, p, t, n = got
    # the other items get new fitting values, so that an update that fails
    # half-way is observable
    items = []
    for x in n.items:
        fits = [s for s in M.STRINGS if len(s.encode()) + 1 <= x.cap]
        if quarantined("misuse.items_large_partial"):
            fits = []
        items.append({"s": rng.choice(fits or [x.text])})
    j = rng.randrange(len(items))
    cap = n.items[j].cap
    items[j] = {"s": too_long(rng, cap)}
    return {"obj": o.k, "path": p, "value": {"l": items, "shape": list(n.shape)}, "bad_item": j, "via": gs._via(o)}


def gen_struct_partial(gs, w):
    """Whole-struct update (dict) in which one string does not fit while the
    other fields get new fitting values."""
    rng = gs.rng
    got = gs._pick_path(w, lambda s, t, n, p: s[t]["k"] == "struct" and not typegen.has_refs(s, t) and any(s[f[1]]["k"] == "str" for f in s[t]["fields"]) and len(s[t]["fields"]) > 1)
    if got is None:
        return None
    o, p, t, n = got
    value = gs._same_shape_value(w, t, n)
    if value is None:
        return None
    strs = [f[0] for f in w.schema[t]["fields"] if w.schema[f[1]]["k"] == "str" and n.f[f[0]].cap is not None]
    if not strs:
        return None
    fn = rng.choice(strs)
    cap = n.f[fn].cap
    value["d"][fn] = {"s": "v" * ((cap + 7) // 8 * 8 + rng.choice([0, 5]))}
    return {"obj": o.k, "path": p, "value": value, "bad_field": fn, "via": gs._via(o)}


def gen_union_nonmember(gs, w):
    rng = gs.rng
    got = gs._pick_path(w, lambda s, t, n, p: s[t]["k"] == "uref")
    if got is None:
        return None
    o, p, t, n = got
    members = w.schema[t]["members"]
    outs = [x for x in w.live_objs() if x.t not in members and w.schema[x.t]["k"] in ("struct", "array")]
    names = {typegen.type_name(w.schema, m) for m in members}
    outs = [x for x in outs if typegen.type_name(w.schema, x.t) not in names]
    if outs and rng.random() < 0.7:
        # prefer classes that are members of *another* union of the schema
        elsewhere = {m for ty in w.schema if ty["k"] == "uref" for m in ty["members"]}
        pref = [x for x in outs if x.t in elsewhere]
        return {"obj": o.k, "path": p, "target_obj": rng.choice(pref or outs).k, "via": gs._via(o)}
    nonmember = [i for i, ty in enumerate(w.schema) if ty["k"] == "struct" and i not in members]
    if not nonmember:
        return None
    return {"obj": o.k, "path": p, "target_name": typegen.type_name(w.schema, rng.choice(nonmember)), "via": gs._via(o)}


def gen_ctx_mismatch(gs, w):
    rng = gs.rng
    tops = [t for t in gs.top_types(w) if w.schema[t]["k"] != "str"]
    if not tops:
        return None
    t = rng.choice(tops)
    if typegen.leaf_count(w.schema, t, 2) > 60:
        return None
    v = _plain(gs, w, t)
    if v is None:
        return None
    from .objsim import pick_buf

    b = pick_buf(w, rng)
    op = {"type": t, "value": v, "buf": b, "ctx": rng.choice(["default"] + list(range(len(w.ctxs))))}
    regions = [i for i, r in enumerate(w.regions) if r is not None and w.bufs.index(r[0]) == b and r[2] >= 8]
    if regions and rng.random() < 0.4:
        # ... together with an explicit offset (inside a region of that buffer that is in use)
        op["region"] = rng.choice(regions)
    return op


def gen_string_update_method(gs, w):
    """The public String.update(value) with a text just beyond the capacity fixed at creation
    (within the 8-byte rounding of it)."""
    rng = gs.rng
    from .objsim import pick_buf

    cands = [o for o in w.live_objs() if w.schema[o.t]["k"] == "str" and o.node.cap is not None and o.node.cap % 8 != 0]
    if cands and rng.random() < 0.5:
        o = rng.choice(cands)
        cap = o.node.cap
        op = {"obj": o.k}
    else:
        # a string made for the occasion from a capacity that is not a multiple of 8
        cap = rng.choice([1, 2, 3, 5, 7, 9, 10, 12, 13, 15, 30])
        op = {"cap": cap, "buf": pick_buf(w, rng)}
    capr = (cap + 7) // 8 * 8
    n = rng.randint(cap, capr - 1)  # n bytes of text + NUL > cap
    op.update({"text": rng.choice("uvw") * n, "as_obj": rng.random() < 0.3})
    return op


def gen_misfit_at_offset(gs, w):
    """A value that one of the type's static array fields cannot take (one item too many),
    constructed at an explicit offset inside a region that is in use: it must be refused and must not
    hand the region back to the allocator."""
    rng = gs.rng
    cands = []
    for t, ty in enumerate(w.schema):
        if ty["k"] == "struct" and not typegen.has_refs(w.schema, t) and typegen.leaf_count(w.schema, t, 2) <= 60:
            for f in ty["fields"]:
                fty = w.schema[f[1]]
                if fty["k"] == "array" and len(fty["shape"]) == 1 and fty["shape"][0] not in (None,) and w.schema[fty["item"]]["k"] == "sc":
                    cands.append((t, f[0], f[1]))
    live_regions = [i for i, r in enumerate(w.regions) if r is not None and r[2] >= 64]
    if not cands or not live_regions:
        return None
    t, fname, ft = rng.choice(cands)
    v = _plain(gs, w, t)
    if v is None or "d" not in v:
        return None
    n0 = w.schema[ft]["shape"][0]
    if n0 > 0 and rng.random() < 0.5:
        # ... or one item that is not a number: found only while the values are being written
        v["d"][fname] = {"l": [M.gen_scalar(rng, w.schema[w.schema[ft]["item"]]["t"]) for _ in range(n0)], "shape": [n0]}
        return {"type": t, "value": v, "region": rng.choice(live_regions), "bad_field": fname, "bad_item": rng.randrange(n0)}
    n = n0 + 1
    v["d"][fname] = {"l": [M.gen_scalar(rng, w.schema[w.schema[ft]["item"]]["t"]) for _ in range(n)], "shape": [n]}
    return {"type": t, "value": v, "region": rng.choice(live_regions), "bad_field": fname}


def gen_negative_size(gs, w):
    """Dimensions / a string capacity below zero: less room than the header that would be written."""
    from .objsim import pick_buf

    rng = gs.rng
    cands = [t for t, ty in enumerate(w.schema) if ty["k"] == "str" or (ty["k"] == "array" and any(d is None for d in ty["shape"]) and not typegen.is_dynamic(w.schema, ty["item"]))]
    if not cands:
        return None
    t = rng.choice(cands)
    ty = w.schema[t]
    if ty["k"] == "str":
        return {"type": t, "dims": [-rng.choice([1, 2, 3, 8, 9])], "buf": pick_buf(w, rng)}
    nd = sum(1 for d in ty["shape"] if d is None)
    dims = [rng.choice([1, 2, 3]) for _ in range(nd)]
    dims[rng.randrange(nd)] = -rng.choice([1, 1, 2, 3])
    return {"type": t, "dims": dims, "buf": pick_buf(w, rng), "np": rng.random() < 0.3}


def gen_offset_nobuf(gs, w):
    rng = gs.rng
    if rng.random() < 0.35:
        # a stand-alone union reference built from an existing member object, at an offset, with neither
        # buffer nor context (the member's own buffer must not be taken for the caller's)
        urefs = [t for t, ty in enumerate(w.schema) if ty["k"] == "uref"]
        rng.shuffle(urefs)
        for ut in urefs:
            mem = [x for mt in w.schema[ut]["members"] for x in w.live_objs(mt)]
            if mem:
                return {"type": ut, "value": None, "union_of": rng.choice(mem).k, "offset": rng.choice([0, 8, 16, 40]), "ctx": None}
    tops = [t for t in gs.top_types(w) if w.schema[t]["k"] != "str"]
    if not tops:
        return None
    t = rng.choice(tops)
    if typegen.leaf_count(w.schema, t, 2) > 60:
        return None
    v = _plain(gs, w, t)
    if v is None:
        return None
    return {"type": t, "value": v, "offset": rng.choice([0, 8, 16, 100]), "ctx": rng.choice([None, 0])}


# ------------------------------------------------------------------------------


def run(step):
    from .objsim import pick_buf, Skip, xo

    w, op = step.w, step.op
    kind = op["kind"]
    res = step.res
    raised = None
    feat = "-"
    try:
        if kind == "misfit_at_offset":
            t = op["type"]
            if t >= len(w.schema) or op["region"] >= len(w.regions) or w.regions[op["region"]] is None:
                raise Skip()
            cls = w.classes[t]
            buf, roff, rsize = w.regions[op["region"]]
            py, _ = M.Materialiser(w.schema, w.classes, w.objs, None).mat(t, op["value"])
            feat = typegen.features(w.schema, t)
            # the object (with the misfitting field cut to its length) must fit the region: measure it
            try:
                ok = dict(py)
                if op.get("bad_item") is not None:
                    py = dict(py)
                    lst = list(py[op["bad_field"]])
                    lst[op["bad_item"]] = "x"
                    py[op["bad_field"]] = lst
                else:
                    ok[op["bad_field"]] = list(ok[op["bad_field"]])[:-1]
                need = int(cls(ok, _context=xo.ContextCpu())._size)
            except Exception:
                raise Skip()
            if need + 16 > rsize:
                raise Skip()
            free_before = (buf.get_free(), buf.capacity)
            call = lambda: cls(py, _buffer=buf, _offset=roff)
            step.after_misuse = lambda: (buf.get_free(), buf.capacity) == free_before or step.viol("C11", "refused_operation_changed_allocator_state", [kind], f"free bytes / capacity {free_before} -> {(buf.get_free(), buf.capacity)} after a refused construction at an explicit offset {roff} (the region is in use)")
            # the region is the harness's own: bytes inside it may be written before the refusal
            step.allowed.append((buf, roff, roff + rsize))
        elif kind == "string_update_method":
            if "cap" in op:
                if op["buf"] >= len(w.bufs) or len(op["text"]) + 1 <= op["cap"]:
                    raise Skip()
                sobj = xo.String(op["cap"], _buffer=w.bufs[op["buf"]])
                feat = f"cap{op['cap'] % 8}"
            else:
                o = step.get_obj(op["obj"])
                if w.schema[o.t]["k"] != "str" or o.node.cap is None or len(op["text"]) + 1 <= o.node.cap:
                    raise Skip()
                feat = f"cap{o.node.cap % 8}"
                sobj = o.view()
            val = xo.String(op["text"], _context=xo.ContextCpu()) if op.get("as_obj") else op["text"]
            call = lambda: sobj.update(val)
        elif kind == "negative_size":
            t = op["type"]
            if t >= len(w.schema) or op["buf"] >= len(w.bufs):
                raise Skip()
            cls = w.classes[t]
            buf = w.bufs[op["buf"]]
            dims = [np.int64(d) for d in op["dims"]] if op.get("np") else list(op["dims"])
            feat = typegen.features(w.schema, t)
            call = lambda: cls(*dims, _buffer=buf)
        elif kind in ("ctx_mismatch", "offset_nobuf"):
            t = op["type"]
            if t >= len(w.schema):
                raise Skip()
            cls = w.classes[t]
            mat = M.Materialiser(w.schema, w.classes, w.objs, None)
            if op.get("union_of") is not None:
                py = step.get_obj(op["union_of"]).handle()
            else:
                py, _ = mat.mat(t, op["value"])
            feat = typegen.features(w.schema, t)
            if kind == "ctx_mismatch":
                if op["buf"] >= len(w.bufs):
                    raise Skip()
                buf = w.bufs[op["buf"]]
                ctx = w.default_ctx if op["ctx"] == "default" else w.ctxs[op["ctx"]] if op["ctx"] < len(w.ctxs) else None
                if ctx is None or ctx is buf.context:
                    raise Skip()
                if op.get("region") is not None:
                    if op["region"] >= len(w.regions) or w.regions[op["region"]] is None or w.regions[op["region"]][0] is not buf:
                        raise Skip()
                    roff = w.regions[op["region"]][1]
                    call = lambda: cls(py, _buffer=buf, _context=ctx, _offset=roff)
                else:
                    call = lambda: cls(py, _buffer=buf, _context=ctx)
            else:
                ctx = None if op["ctx"] is None or op["ctx"] >= len(w.ctxs) else w.ctxs[op["ctx"]]
                call = lambda: cls(py, _offset=op["offset"], _context=ctx)
        else:
            o = step.get_obj(op["obj"])
            path = op["path"]
            try:
                t, node, parent, key = M.node_at(w.schema, o.t, o.node, path)
            except Exception:
                raise Skip()
            if node is None:
                raise Skip()
            feat = typegen.features(w.schema, o.t) + ">" + typegen.features(w.schema, t)
            start = o.handle() if op.get("via") == "handle" and o.hnd is not None else o.view()
            if kind == "index_oob":
                if w.schema[t]["k"] != "array" or len(op["idx"]) < len(node.shape):
                    raise Skip()
                shape = node.shape
                static_item = not typegen.is_dynamic(w.schema, w.schema[t]["item"])
                oob = len(op["idx"]) > len(shape) or any(i >= d or (i < 0 and (static_item or i < -d)) for i, d in zip(op["idx"], shape))
                if len(op["idx"]) > len(shape):
                    res.probe("index_with_too_many_entries")
                if not oob:
                    raise Skip()
                arr = o.walk(path, start)
                ix = tuple(op["idx"]) if len(op["idx"]) > 1 else op["idx"][0]
                if op["mode"] == "set":
                    py, _ = M.Materialiser(w.schema, w.classes, w.objs, None).mat(w.schema[t]["item"], op["value"])

                    def call():
                        arr[ix] = py

                else:
                    call = lambda: arr[ix]
            elif kind in ("array_shape", "string_long", "items_large", "struct_partial"):
                if not path:
                    raise Skip()
                try:
                    py, vnode = M.Materialiser(w.schema, w.classes, w.objs, None).mat(t, op["value"])
                except Exception:
                    raise Skip()
                if kind == "array_shape" and (w.schema[t]["k"] != "array" or tuple(vnode.shape) == tuple(node.shape)):
                    raise Skip()
                if kind == "array_shape" and op.get("as_obj"):
                    try:
                        py = w.classes[t](py, _context=xo.ContextCpu())
                    except Exception:
                        raise Skip()  # the other shape is not a value of this array type at all
                    if tuple(int(d) for d in py._shape) == tuple(node.shape):
                        raise Skip()  # (a static shape absorbed the list: the object fits after all)
                if kind == "string_long" and (w.schema[t]["k"] != "str" or node.cap is None or len(vnode.text.encode()) + 1 <= node.cap):
                    raise Skip()
                if kind == "struct_partial":
                    fn = op["bad_field"]
                    if w.schema[t]["k"] != "struct" or fn not in node.f or not isinstance(node.f[fn], M.StrNode) or node.f[fn].cap is None or len(vnode.f[fn].text.encode()) + 1 <= node.f[fn].cap:
                        raise Skip()
                if kind == "items_large":
                    if w.schema[t]["k"] != "array" or tuple(vnode.shape) != tuple(node.shape):
                        raise Skip()
                    if not any(a.cap is not None and len(b.text.encode()) + 1 > a.cap for a, b in zip(node.items, vnode.items)):
                        raise Skip()
                holder = o.walk(path[:-1], start)
                last = path[-1]

                def call():
                    if isinstance(last, str):
                        setattr(holder, last, py)
                    else:
                        holder[tuple(last) if len(last) > 1 else last[0]] = py

            elif kind == "scalar_sequence":
                if w.schema[t]["k"] != "sc" or not path:
                    raise Skip()

                vals = [M.scalar_py(w.schema[t]["t"], v) for v in op["values"]]
                py = np.array(vals, dtype=typegen.SC_DTYPE[w.schema[t]["t"]]) if op.get("as_nd") else vals
                holder = o.walk(path[:-1], start)
                last = path[-1]

                def call():
                    if isinstance(last, str):
                        setattr(holder, last, py)
                    else:
                        holder[tuple(last) if len(last) > 1 else last[0]] = py

            elif kind == "array_nested_deeper":
                if w.schema[t]["k"] != "array" or not path or w.schema[w.schema[t]["item"]]["k"] != "sc" or len(op["values"]) != len(node.items) * op["inner"]:
                    raise Skip()
                it = w.schema[w.schema[t]["item"]]["t"]
                flat = [M.scalar_py(it, v) for v in op["values"]]
                groups = [flat[i * op["inner"] : (i + 1) * op["inner"]] for i in range(len(node.items))]
                py = M.nest(groups, node.shape)  # the array's own shape, each "item" a list
                holder = o.walk(path[:-1], start)
                last = path[-1]

                def call():
                    if isinstance(last, str):
                        setattr(holder, last, py)
                    else:
                        holder[tuple(last) if len(last) > 1 else last[0]] = py

            elif kind == "array_dims":
                if w.schema[t]["k"] != "array" or not path:
                    raise Skip()
                ty = w.schema[t]
                dyn = [i for i, d in enumerate(ty["shape"]) if d is None]
                if len(dyn) != len(op["dims"]) or [node.shape[i] for i in dyn] == list(op["dims"]):
                    raise Skip()
                py = int(op["dims"][0]) if len(dyn) == 1 else tuple(int(d) for d in op["dims"])
                holder = o.walk(path[:-1], start)
                last = path[-1]

                def call():
                    if isinstance(last, str):
                        setattr(holder, last, py)
                    else:
                        holder[tuple(last) if len(last) > 1 else last[0]] = py

            elif kind == "union_nonmember":
                if w.schema[t]["k"] != "uref" or not path:
                    raise Skip()
                if "target_obj" in op:
                    x = step.get_obj(op["target_obj"])
                    if x.t in w.schema[t]["members"]:
                        raise Skip()
                    py = x.handle()
                else:
                    py = (op["target_name"], {})
                holder = o.walk(path[:-1], start)
                last = path[-1]

                def call():
                    if isinstance(last, str):
                        setattr(holder, last, py)
                    else:
                        holder[tuple(last) if len(last) > 1 else last[0]] = py

            else:
                raise Skip()
    except Skip:
        raise
    except KeyError:
        raise Skip()
    for b in w.bufs:
        b._ctl.drain()
    try:
        call()
    except Exception as e:
        raised = e
    res.fault("misuse")
    res.features.add(f"misuse:{kind}:{feat}:{op.get('mode', '')}")
    res.probe("misuse_" + kind)
    if raised is None:
        step.outcome = "accepted"
        step.viol("C11", "misuse_accepted", [kind, feat] + ([op["mode"]] if "mode" in op else []), f"no exception for {str(op)[:400]}")
    else:
        step.outcome = "raised:" + type(raised).__name__
        if getattr(step, "after_misuse", None):
            step.after_misuse()
