"""Restart through the pickled form (C20).

A group of handles is pickled together and loaded back.  The restored buffers
join the world as new buffers, the restored objects as new objects with a
graph-preserving clone of the group's model, and the history continues on both
sides against the two separate models.
"""
import pickle

import numpy as np

from . import model as M, typegen
from .core import exc_sig


def clone_graph(schema, t, node, memo, bidmap):
    """Deep copy that preserves sharing (aliasing) inside the group."""
    ty = schema[t]
    k = ty["k"]
    if k == "sc":
        return node
    if id(node) in memo:
        return memo[id(node)]
    if k == "str":
        c = M.StrNode(node.text, node.cap)
    elif k == "struct":
        c = M.StructNode(t, {})
        memo[id(node)] = c
        for f in ty["fields"]:
            c.f[f[0]] = clone_graph(schema, f[1], node.f[f[0]], memo, bidmap)
    elif k == "array":
        c = M.ArrayNode(t, node.shape, [])
        memo[id(node)] = c
        c.items = [clone_graph(schema, ty["item"], x, memo, bidmap) for x in node.items]
    elif k == "ref":
        c = M.RefLeaf(None if node.to is None else clone_graph(schema, ty["to"], node.to, memo, bidmap))
    elif k == "uref":
        c = M.URefLeaf(node.m, None if node.to is None else clone_graph(schema, ty["members"][node.m], node.to, memo, bidmap))
    else:
        raise ValueError(k)
    memo[id(node)] = c
    loc = getattr(node, "loc", None)
    if loc is not None and hasattr(c, "loc"):
        c.loc = (bidmap.get(loc[0], loc[0]), loc[1])
    return c


def run(step):
    from .objsim import Skip, Obj, _picklable

    w, op, res = step.w, step.op, step.res
    objs = [step.get_obj(k) for k in op["objs"]]
    if any(not _picklable(w, o.t) for o in objs):
        raise Skip()
    vias = op.get("via") or ["handle"] * len(objs)
    handles = [o.handle() if v == "handle" and o.hnd is not None else o.view() for o, v in zip(objs, vias)]
    feat = "+".join(sorted(typegen.features(w.schema, o.t) for o in objs))
    for b in w.bufs:
        b._ctl.armed = False
    try:
        try:
            data = pickle.dumps(handles)
            new = pickle.loads(data)
        except Exception as e:
            step.outcome = "raised:" + exc_sig(e)
            step.viol("C20", "pickle_raised", ["restart", exc_sig(e), feat], f"{type(e).__name__}: {e}")
            return
    finally:
        for b in w.bufs:
            b._ctl.armed = True
    res.fault("restart")
    res.features.add("restart:" + feat + f":{len(objs)}")
    if op.get("cold"):
        _cold(step, objs, data, feat)
        if step.viols:
            return
    # sharing: a'._buffer is b'._buffer iff a._buffer is b._buffer
    for i in range(len(objs)):
        for j in range(i + 1, len(objs)):
            was = objs[i].buf is objs[j].buf
            now = new[i]._buffer is new[j]._buffer
            if was != now:
                step.viol("C20", "buffer_sharing_not_preserved", ["restart", "shared" if was else "separate"], f"objects {objs[i].k},{objs[j].k}: shared before={was} after={now}")
            if was:
                res.probe("restart_group_shares_buffer")
    # independence of the original's storage
    bidmap = {}
    newbufs = []
    for o, h in zip(objs, new):
        nb = h._buffer
        if nb is o.buf or (hasattr(nb.buffer, "ctypes") and hasattr(o.buf.buffer, "ctypes") and np.shares_memory(nb.buffer, o.buf.buffer)):
            step.viol("C20", "restored_object_shares_storage_with_original", ["restart"], f"object {o.k}")
            return
        if not any(nb is x for x in newbufs):
            newbufs.append(nb)
            nb._ctl.bid = len(w.bufs)
            nb._ctl.armed = True
            nb._ctl.drain()
            nb._ctl.relocate_at = {}
            nb._sim_restored = True
            w.bufs.append(nb)
            bidmap[o.bufid] = nb._ctl.bid
    # the pre-step byte snapshot has no entry for the new buffers
    step.pre = step.pre + [bytes(b.buffer) if not hasattr(b.buffer, "tobytes") else b.buffer.tobytes() for b in newbufs]
    memo = {}
    base = op.get("id", len(w.objs))
    for j, (o, h) in enumerate(zip(objs, new)):
        node = clone_graph(w.schema, o.t, o.node, memo, bidmap)
        if int(h._offset) != o.off:
            step.viol("C20", "restored_offset_differs", ["restart"], f"{o.off} -> {h._offset}")
        oid = base + j
        while len(w.objs) <= oid:
            w.objs.append(None)
        if w.objs[oid] is not None:
            raise Skip()
        n = Obj(w, oid, o.t, node, h._buffer, h._offset, h)
        node.loc = (n.bufid, n.off)
        w.objs[oid] = n
        step.check_obj(n, "C20", what="restored_ne_model")
    step.new_restored = True


def _cold(step, objs, data, feat):
    """The same pickle, loaded in a fresh interpreter (nothing of this process survives): what the
    child reads must be the model's value, sharing must be as it was, the restored buffers must
    allocate outside the restored objects and the objects must survive that allocation."""
    from . import coldload, core

    w, res = step.w, step.res
    try:
        rep = coldload.cold_read(w.schema, data, [o.t for o in objs], core.REPO)
    except coldload.ColdError as e:
        raise RuntimeError(f"cold restart child failed: {e}")
    if rep.get("harness_error"):
        raise RuntimeError("cold restart child: " + rep["harness_error"])
    res.fault("cold_restart")
    res.features.add("cold_restart:" + feat)
    if "load_raised" in rep:
        step.viol("C20", "pickle_raised_in_fresh_process", ["restart", rep["load_raised"], feat], rep.get("load_msg", ""))
        return
    for i in range(len(objs)):
        for j in range(i + 1, len(objs)):
            was = objs[i].buf is objs[j].buf
            now = rep["bufidx"][i] == rep["bufidx"][j]
            if was != now:
                step.viol("C20", "buffer_sharing_not_preserved", ["restart", "shared" if was else "separate", "fresh_process"], f"objects {objs[i].k},{objs[j].k}: shared before={was} after={now}")
    # model snapshot with the buffer ids the child uses (-1-k for its k-th restored buffer)
    bidmap = {}
    for o, bi in zip(objs, rep["bufidx"]):
        bidmap.setdefault(o.bufid, -1 - bi)
    memo = {}
    for j, o in enumerate(objs):
        node = clone_graph(w.schema, o.t, o.node, memo, bidmap)
        want = coldload.jsonable(M.snapshot(w.schema, o.t, node))
        if rep["offsets"][j] != o.off:
            step.viol("C20", "restored_offset_differs", ["restart", "fresh_process"], f"{o.off} -> {rep['offsets'][j]}")
        for key, tag in (("reads", "restored_ne_model"), ("reads_after_alloc", "restored_ne_model_after_allocation")):
            got = rep[key][j]
            if not coldload.same_j(want, got):
                step.viol("C20", tag, ["restart", typegen.features(w.schema, o.t), "fresh_process"], f"object {o.k}: {coldload.first_diff_j(want, got)}")
                return
    # a fresh allocation in a restored buffer lies in bounds and outside every restored object
    seen = {}
    for o, bi in zip(objs, rep["bufidx"]):
        seen.setdefault(bi, []).append(o)
    for bi, a in enumerate(rep["alloc"]):
        if isinstance(a, list):
            step.viol("C20", "restored_buffer_cannot_allocate", ["restart", a[1], "fresh_process"], str(a))
            continue
        if a < 0 or a + 8 > rep["capacity"][bi]:
            step.viol("C20", "allocation_in_restored_buffer_out_of_bounds", ["restart", "fresh_process"], f"offset {a} capacity {rep['capacity'][bi]}")
        for o in seen.get(bi, []):
            # every allocation that was live in the original buffer is reserved in the restored one
            for (lo, sz) in o.buf._sim_allocs:
                if a < lo + sz and lo < a + 8:
                    step.viol("C20", "allocation_in_restored_buffer_overlaps_restored_data", ["restart", "fresh_process"], f"offset {a} overlaps live range ({lo},{sz}) of the original")
                    break
