"""Engine B — ObjSim: object-graph level (C01 C03 C05 C06 C08 C09 C10 C11 C20,
JSON half of C19).

One run = a seeded world (Sim buffers on Sim contexts, a generated type
schema) driven through a seeded history of operations and environment events
(relocation inside allocate, dirty reuse, fragmentation, foreign operands,
misuse, restart).  After every step: allocator sanity, byte diff against the
pre-step snapshot, the operation's post-condition, and a global coherence pass
(kept handle vs model, rebuilt view vs handle, independent decoder vs model,
reference resolution).
"""
import pickle
import sys
import types

import numpy as np

from .core import RunResult, Viol, exc_sig, quarantined
from . import seams, typegen, model as M
from .layout import Decoder, DecodeError, c_indices
from .bufsim import pbytes

xo = seams.xo

# importable home for generated classes (pickling)
typereg = sys.modules.setdefault("sim_typereg", types.ModuleType("sim_typereg"))

PROFILES = {
    # op weights: construct, set_leaf, set_compound, bind, copy, drop, raw, grow, misuse, restart, json
    "construct": dict(w=dict(construct=50, set_leaf=10, set_compound=4, bind=4, copy=6, drop=4, raw=10, grow=8, misuse=0, restart=0, json=2, kill=3), force_p=dict(big_dims=0.12)),
    "neighbours": dict(w=dict(construct=30, set_leaf=25, set_compound=10, bind=5, copy=5, drop=3, raw=15, grow=5, misuse=0, restart=0, json=0)),
    "two_handles": dict(w=dict(construct=25, set_leaf=30, set_compound=10, bind=5, copy=6, drop=15, raw=4, grow=8, misuse=0, restart=0, json=0, kill=4)),
    "assign": dict(w=dict(construct=15, set_leaf=45, set_compound=18, bind=3, copy=2, drop=4, raw=3, grow=10, misuse=0, restart=0, json=0)),
    "misuse": dict(w=dict(construct=25, set_leaf=12, set_compound=5, bind=3, copy=3, drop=3, raw=6, grow=5, misuse=38, restart=0, json=0), force_p=dict(strings=0.9, dyn_items=0.8, urefs=0.6, dyn_struct=0.9)),
    "refs": dict(w=dict(construct=25, set_leaf=20, set_compound=2, bind=25, copy=5, drop=4, raw=4, grow=15, misuse=0, restart=0, json=0), force=dict(refs=True, urefs=True), force_p=dict(ref_chain=0.6)),
    "copies": dict(w=dict(construct=25, set_leaf=22, set_compound=5, bind=8, copy=25, drop=6, raw=4, grow=8, misuse=0, restart=0, json=0, kill=7), force_p=dict(ref_chain=0.4)),
    "restart": dict(w=dict(construct=25, set_leaf=20, set_compound=5, bind=6, copy=4, drop=3, raw=4, grow=12, misuse=0, restart=25, json=0), force_p=dict(class_arrays=0.8, cold_restart=0.15)),
    "json": dict(w=dict(construct=35, set_leaf=20, set_compound=5, bind=0, copy=3, drop=2, raw=4, grow=5, misuse=0, restart=0, json=26), force=dict(refs=False, urefs=False)),
}

OP_PROP = {"construct": "C01", "set": "C10", "bind": "C08", "copy": "C09", "misuse": "C11", "restart": "C20", "json_rebuild": "C19"}
OWN_OPS = {
    "C01": ("construct",),
    "C03": ("construct", "set", "bind", "copy"),
    "C05": ("construct", "set", "bind", "copy"),
    "C06": ("construct", "set", "drop_handle", "bind"),
    "C08": ("bind", "grow", "grow_until", "construct"),
    "C09": ("copy",),
    "C10": ("set",),
    "C11": ("misuse",),
    "C20": ("restart",),
    "C19": ("json_rebuild",),
}


# attribution tables (oracle x kind of the step just executed -> property); engines built on
# ObjSim extend them with their own step kinds
TAG_OTHER = {"construct": "C03", "set": "C10", "bind": "C10", "copy": "C09", "misuse": "C11", "restart": "C20", "json_rebuild": "C03", "c_read": "C02", "c_set": "C07", "c_call": "C17", "c_rebuild": "C17"}
TAG_OUT = {"construct": "C03", "set": "C03", "bind": "C03", "copy": "C03", "misuse": "C11", "restart": "C20", "json_rebuild": "C03", "c_read": "C02", "c_set": "C07", "c_call": "C17", "c_rebuild": "C17"}
STEP_PROP = {"kill": "C09", "construct": "C01", "set": "C10", "bind": "C08", "copy": "C09", "misuse": "C11", "restart": "C20", "json_rebuild": "C19", "c_read": "C02", "c_set": "C07", "c_call": "C17", "c_rebuild": "C17"}
INPLACE_KINDS = {"kill", "set", "bind", "misuse", "grow", "grow_until", "raw_alloc", "raw_free", "drop_handle", "c_read", "c_set", "c_call", "c_rebuild"}
LAYOUT_PROP = {"kill": "C09", "set": "C10", "bind": "C08", "misuse": "C11", "c_read": "C02", "c_set": "C07", "c_call": "C17", "c_rebuild": "C17"}


def gen_world(rng, profile, tier, no_twins=False):
    pf = PROFILES[profile]
    sw = {
        "strings": rng.random() < 0.7,
        "dyn_struct": rng.random() < 0.8,
        "dyn_items": rng.random() < 0.6,
        "dyn_shape": rng.random() < 0.75,
        "nd": rng.random() < 0.65,
        "orders": rng.random() < 0.7,
        "refs": rng.random() < 0.5,
        "urefs": rng.random() < 0.35,
        "class_arrays": rng.random() < 0.5,
        "defaults": rng.random() < 0.4,
        "fieldless": rng.random() < 0.15,
        "str_cap": rng.random() < 0.5,
        "omit": rng.random() < 0.5,
        "xobj_input": rng.random() < 0.6,
        "nd_input": rng.random() < 0.7,
        "dims_form": rng.random() < 0.6,
        "cyc3": rng.random() < 0.2,
        "ref_chain": rng.random() < 0.15,
        "name_twins": rng.random() < 0.15,
        "short_names": rng.random() < 0.15,
        "hostile_fields": rng.random() < 0.12,
        "union_nest": rng.random() < 0.15,
        "long_refs": rng.random() < 0.3,
        "zero_static": rng.random() < 0.25,
        "np_dims": rng.random() < 0.15,
        "kill": rng.random() < 0.5,
        "relocate": rng.random() < 0.6,
        "dirty": rng.random() < 0.6,
        "max_types": rng.choice([3, 5, 8]),
        "min_types": 2,
        "max_depth": rng.choice([2, 3, 4]),
        "max_extent": rng.choice([2, 3, 4]),
        "max_objs": rng.choice([4, 6, 10]),
        "steps": rng.choice([5, 10, 20, 40, 60]) if tier == "quick" else rng.choice([10, 30, 60, 120, 200]),
    }
    sw.update(pf.get("force", {}))
    for kf, pr in pf.get("force_p", {}).items():
        sw[kf] = rng.random() < pr
    if no_twins or profile in ("restart", "json"):
        sw["name_twins"] = False  # one C name / one pickled name for two classes: not in worlds that compile or pickle
    schema = typegen.gen_schema(rng, sw)
    nctx = rng.choice([1, 1, 2])
    nbuf = rng.choice([1, 2, 2, 3])
    bufs = []
    for b in range(nbuf):
        bufs.append(
            {
                "ctx": rng.randrange(nctx),
                "kind": rng.choice(["numpy", "numpy", "bytearray"]),
                "capacity": rng.choice([0, 8, 64, 256, 1024, 4096]),
                "align": rng.choice([None, 1, 8, 8, 16, 64]),
                "grow_step": rng.choice([None, None, 8, 64, 1000]),
            }
        )
    # buffers sharing a context share a kind (ContextCpu itself only makes BufferNumpy;
    # mixing kinds under one context is not a configuration the library produces)
    kind_of_ctx = {}
    for b in bufs:
        kind_of_ctx.setdefault(b["ctx"], b["kind"])
        b["kind"] = kind_of_ctx[b["ctx"]]
    reloc = {}
    if sw["relocate"]:
        for b in range(nbuf):
            plan = {}
            for o in range(1, 80):
                if rng.random() < 0.15:
                    plan[str(o)] = rng.choice([0, 1, 7, 8, 64, 256])
            reloc[str(b)] = plan
    return {
        "contexts": [{"omp": 0} for _ in range(nctx)],
        "buffers": bufs,
        "switches": sw,
        "schema": schema,
        "relocate_at": reloc,
        "dirty_seed": rng.getrandbits(31) if sw["dirty"] else None,
    }


def pick_buf(w, rng):
    """Index of a buffer of the world: mostly one of the configured ones, sometimes any buffer that
    exists by now (made by a context for one object, restored from a pickle, ...): those, too, must
    keep working as allocators."""
    n0 = len(w.spec["buffers"])
    if len(w.bufs) > n0 and rng.random() < 0.25:
        return rng.randrange(len(w.bufs))
    return rng.randrange(n0)


class Obj:
    def __init__(self, world, k, t, node, buf, off, hnd):
        self.w, self.k, self.t, self.node = world, k, t, node
        self.buf, self.off, self.hnd = buf, int(off), hnd
        self.alive = True
        self.copy_of = None

    @property
    def bufid(self):
        return self.buf._ctl.bid

    def view(self):
        cls = self.w.classes[self.t]
        if self.w.schema[self.t]["k"] == "str":
            return xo.String._from_buffer(self.buf, self.off)
        return cls._from_buffer(self.buf, self.off)

    def handle(self):
        if self.hnd is not None:
            return self.hnd
        return self.view()

    def walk(self, path, start=None):
        cur = start if start is not None else self.handle()
        for el in path:
            if el == "*":
                continue
            if isinstance(el, str):
                cur = getattr(cur, el)
            else:
                cur = cur[tuple(el) if len(el) > 1 else el[0]]
        return cur


class ObjWorld:
    def __init__(self, spec):
        self.spec = spec
        self.schema = spec["schema"]
        self.sw = spec["switches"]
        self.dec = Decoder(self.schema)
        kinds = {}
        for b in spec["buffers"]:
            kinds.setdefault(b["ctx"], b["kind"])
        self.ctxs = [seams.SimContext(omp_num_threads=c["omp"], plan={"on_new": self._on_new, "kind": kinds.get(i, "numpy")}) for i, c in enumerate(spec["contexts"])]
        self.bufs = []
        for i, b in enumerate(spec["buffers"]):
            buf = seams.make_buffer(b["kind"], self.ctxs[b["ctx"]], b["capacity"], b["align"], b["grow_step"], i)
            self._register(buf)
            plan = spec.get("relocate_at", {}).get(str(i), {})
            buf._ctl.relocate_at = {int(k): v for k, v in plan.items()}
        self.classes = typegen.build_classes(self.schema, module=typereg)
        self.cls_index = {id(c): i for i, c in enumerate(self.classes)}
        self.objs = []
        self.regions = []  # harness-owned raw regions: [buf, off, size] or None
        # dirty the initial free space through the public API: allocate all, scribble, free
        if spec.get("dirty_seed") is not None:
            for buf in self.bufs:
                cap = buf.capacity
                if cap > 0:
                    off = buf.allocate(cap, align=False)
                    buf.update_from_buffer(off, pbytes(spec["dirty_seed"] + buf._ctl.bid, cap))
                    buf.free(off, cap)
        for buf in self.bufs:
            buf._ctl.armed = True
            buf._ctl.drain()

    def _register(self, buf):
        buf._sim_allocs = []  # live allocations [(off, size)]
        self.bufs.append(buf)

    def _on_new(self, buf):
        buf._ctl.bid = len(self.bufs)
        buf._ctl.armed = True
        self._register(buf)

    def bytes_of(self):
        return [seams.raw_bytes(b) for b in self.bufs]

    def live_objs(self, t=None, buf=None):
        return [o for o in self.objs if o is not None and o.alive and (t is None or o.t == t) and (buf is None or o.buf is buf)]


# ------------------------------------------------------------------------------
# reading through handles


class ReadError(Exception):
    pass


def read_handle(w, t, val, nplike=False):
    schema = w.schema
    ty = schema[t]
    k = ty["k"]
    if k == "sc":
        dt = np.dtype(typegen.SC_DTYPE[ty["t"]])
        if not isinstance(val, np.generic) or val.dtype != dt:
            return ("badscalar", repr(type(val)), repr(val))
        return ("sc", val.tobytes().hex())
    if k == "str":
        if hasattr(val, "to_str"):
            val = val.to_str()
        if not isinstance(val, str):
            return ("badstr", repr(val))
        return ("s", val)
    if k == "struct":
        return ("st", [(f[0], read_handle(w, f[1], getattr(val, f[0]), nplike)) for f in ty["fields"]])
    if k == "array":
        shape = tuple(int(d) for d in val._shape)
        nd = len(shape)
        items = []
        if any(d < 0 for d in shape) or int(np.prod(shape, dtype=object)) > 2_000_000:
            return ("badshape", shape)  # (a garbage header: not iterated)
        for idx in c_indices(shape):
            items.append(read_handle(w, ty["item"], val[idx if nd > 1 else idx[0]], nplike))
        if nplike and schema[ty["item"]]["k"] == "sc":
            for meth in ("to_nplike", "to_nparray"):
                arr = getattr(val, meth)()
                if tuple(arr.shape) != shape:
                    return ("badnplike", meth, "shape", tuple(arr.shape), shape)
                got = [arr[idx].tobytes().hex() for idx in c_indices(shape)]
                if got != [x[1] for x in items]:
                    return ("badnplike", meth, "values")
        return ("ar", shape, items)
    if k == "ref":
        if val is None:
            return ("null",)
        return ("ref", (val._buffer._ctl.bid, int(val._offset)), read_handle(w, ty["to"], val, nplike))
    if k == "uref":
        if hasattr(val, "get") and type(val) is w.classes[t]:
            val = val.get()
        if val is None:
            return ("unull",)
        ci = w.cls_index.get(id(type(val)))
        if ci not in ty["members"]:
            return ("baduref", type(val).__name__)
        m = ty["members"].index(ci)
        return ("uref", m, (val._buffer._ctl.bid, int(val._offset)), read_handle(w, ci, val, nplike))
    raise ValueError(k)


def handle_meta(w, t, val, out, path=()):
    """shape / strides / size of every compound part (C06 comparison)."""
    ty = w.schema[t]
    k = ty["k"]
    if k == "struct":
        out.append((path, "struct", int(val._get_size())))
        for f in ty["fields"]:
            if w.schema[f[1]]["k"] in ("struct", "array"):
                handle_meta(w, f[1], getattr(val, f[0]), out, path + (f[0],))
    elif k == "array":
        shape = tuple(int(d) for d in val._shape)
        out.append((path, "array", shape, tuple(int(s) for s in val._strides), int(val._get_size())))
        if w.schema[ty["item"]]["k"] in ("struct", "array"):
            nd = len(shape)
            for idx in c_indices(shape):
                handle_meta(w, ty["item"], val[idx if nd > 1 else idx[0]], out, path + (idx,))


def _is_ref_field(val, index):
    try:
        return bool(val._fields[index].is_reference)
    except Exception:
        return False


# ------------------------------------------------------------------------------


class GenSource:
    def __init__(self, rng, profile, spec):
        self.rng = rng
        self.profile = profile
        self.w8 = PROFILES[profile]["w"]
        self.sw = spec["switches"]
        self.n = 0
        self.next_id = 0
        self.cold_done = False

    def new_id(self, n=1):
        i = self.next_id
        self.next_id += n
        return i

    def next(self, w):
        if self.n >= self.sw["steps"]:
            return None
        self.n += 1
        rng = self.rng
        if getattr(self, "pending", None):
            return self.pending.pop(0)  # scripted continuation of an interesting prefix
        live = w.live_objs()
        if not live:
            return self.construct(w)
        kinds = list(self.w8)
        kind = rng.choices(kinds, weights=[self.w8[k] for k in kinds])[0]
        if kind == "construct" and len(live) >= self.sw["max_objs"]:
            kind = "set_leaf"
        for _ in range(4):
            op = getattr(self, kind)(w)
            if op is not None:
                return op
            kind = rng.choice(["set_leaf", "construct", "grow", "raw"])
        return {"op": "grow", "buf": 0, "n": 8}

    # -- helpers
    def top_types(self, w):
        return [i for i, ty in enumerate(w.schema) if ty["k"] in ("struct", "array", "str")]

    def vg(self, w, bufid):
        def avail(t):
            return [(o.k, o.bufid) for o in w.live_objs(t)]

        return M.ValueGen(self.rng, w.schema, self.sw, avail)

    def place(self, w):
        rng = self.rng
        r = rng.random()
        if r < 0.08:
            return {"ctx": rng.randrange(len(w.ctxs))}
        if r < 0.12:
            return "default_ctx"
        b = pick_buf(w, rng)
        if r < 0.22:
            return {"buf": b, "how": "offset", "align": rng.random() < 0.5, "pad": rng.choice([0, 0, 8, 24])}
        return {"buf": b, "how": rng.choice(["default", "default", "aligned", "packed"])}

    def _pair_scenario(self, w):
        """Two array classes with the same item type and rank, one of them of static shape: an object
        of the other class with exactly that shape (built from data or from dimensions), then the
        static one constructed from it — through its constructor handle or through a rebuilt view."""
        rng = self.rng
        sc = w.schema
        pairs = []
        for ts, tys in enumerate(sc):
            if tys["k"] != "array" or sc[tys["item"]]["k"] != "sc" or any(d is None for d in tys["shape"]) or 0 in tys["shape"]:
                continue
            for td, tyd in enumerate(sc):
                if td != ts and tyd["k"] == "array" and tyd["item"] == tys["item"] and len(tyd["shape"]) == len(tys["shape"]) and any(d is None for d in tyd["shape"]) and all(d is None or d == n for d, n in zip(tyd["shape"], tys["shape"])):
                    pairs.append((ts, td))
        if not pairs:
            return None
        ts, td = rng.choice(pairs)
        shape = list(sc[ts]["shape"])
        n = 1
        for d in shape:
            n *= d
        if n > 60:
            return None
        b = pick_buf(w, rng)
        it = sc[sc[ts]["item"]]["t"]
        if rng.random() < 0.3:
            v = {"dims": [shape[i] for i, d in enumerate(sc[td]["shape"]) if d is None], "shape": shape}
        else:
            v = {"l": [M.gen_scalar(rng, it) for _ in range(n)], "shape": shape}
        sid = self.new_id()
        return [
            {"op": "construct", "type": td, "value": v, "place": {"buf": b, "how": "default"}, "form": "single", "id": sid},
            {"op": "construct", "type": ts, "value": {"obj": sid, "view": rng.random() < 0.5}, "place": self.place(w), "form": "single", "id": self.new_id()},
        ]

    def construct(self, w):
        rng = self.rng
        if self.sw.get("xobj_input") and rng.random() < 0.06 and not getattr(self, "pending", None):
            sc_ = self._pair_scenario(w)
            if sc_:
                self.pending = sc_[1:]
                return sc_[0]
        tops = self.top_types(w)
        comp = [t for t in tops if w.schema[t]["k"] != "str"]
        t = rng.choice(comp[-6:]) if comp and rng.random() < 0.85 else rng.choice(tops)
        if self.profile in ("restart", "hybrid_restart") and rng.random() < 0.3:
            # stand-alone, class-declared (hence picklable) arrays of numbers
            pa = [i for i in tops if w.schema[i]["k"] == "array" and w.schema[i]["decl"] == "class" and w.schema[w.schema[i]["item"]]["k"] == "sc"]
            if pa:
                t = rng.choice(pa)
        if typegen.leaf_count(w.schema, t, 2) > 150:
            t = rng.choice(tops)
        place = self.place(w)
        bufid = place["buf"] if isinstance(place, dict) and "buf" in place else None
        value = self.vg(w, bufid).gen(t, top=True)
        if M.spec_leaves(value) > 1200 or self.world_leaves(w) > 6000:
            # keep the per-step full re-read affordable: a small scalar array instead
            small = [i for i in tops if w.schema[i]["k"] == "array" and w.schema[w.schema[i]["item"]]["k"] == "sc" and len(w.schema[i]["shape"]) == 1]
            if not small or self.world_leaves(w) > 12000:
                return None
            t = rng.choice(small)
            value = self.vg(w, bufid).gen(t, top=True)
        form = "single"
        if w.schema[t]["k"] == "struct" and "d" in value and rng.random() < 0.4:
            form = "kwargs"
        return {"op": "construct", "type": t, "value": value, "place": place, "form": form, "id": self.new_id()}

    def world_leaves(self, w):
        return sum(M.node_leaves(w.schema, o.t, o.node) for o in w.live_objs())

    def _pick_path(self, w, want):
        """Pick (obj, path, type, node) whose type kind is in `want`."""
        rng = self.rng
        live = w.live_objs()
        rng.shuffle(live)
        for o in live[:4]:
            paths = M.enum_paths(w.schema, o.t, o.node)
            cands = [(p, t, n) for p, t, n in paths if p and p[-1] != "*" and want(w.schema, t, n, p)]
            if cands:
                p, t, n = rng.choice(cands)
                return o, p, t, n
        return None

    def set_leaf(self, w):
        rng = self.rng
        got = self._pick_path(w, lambda s, t, n, p: s[t]["k"] in ("sc", "str"))
        if got is None:
            return None
        o, p, t, n = got
        ty = w.schema[t]
        if ty["k"] == "sc":
            value = M.gen_scalar(rng, ty["t"])
        else:
            cap = n.cap if n.cap is not None else 1
            fits = [s for s in M.STRINGS if len(s.encode()) + 1 <= cap]
            value = {"s": rng.choice(fits or [""])}
            if not fits and cap < 1:
                return None
            if rng.random() < 0.3:
                value["as_obj"] = True  # an xo.String object (with its own, smaller capacity) instead of a str
                if rng.random() < 0.4:
                    # ... or with a LARGER capacity than the destination, while its text fits
                    value["obj_cap"] = cap + rng.choice([1, 7, 8, 9, 24, 40])
        op = {"op": "set", "obj": o.k, "path": p, "value": value, "via": self._via(o)}
        if isinstance(p[-1], list) and rng.random() < 0.15 and all(0 <= i < 100 for i in p[-1]):
            op["np_index"] = rng.choice(["int8", "uint8", "int16", "int64"])  # index given as numpy integers
        return op

    def _via(self, o):
        if o.hnd is None:
            return "view"
        return self.rng.choice(["handle", "handle", "view"])

    def _slots_scenario(self, w):
        """A 1-D array of strings whose slots differ in size, a second array of the same class whose
        slots are the same sizes in another order (same total), emptied so that every item fits, then
        first._update(second): item by item, the offsets of the first array's items stay what they were."""
        rng = self.rng
        sc = w.schema
        cands = []
        for o in w.live_objs():
            ty = sc[o.t]
            if ty["k"] == "array" and len(ty["shape"]) == 1 and sc[ty["item"]]["k"] == "str" and 2 <= len(o.node.items) <= 4:
                caps = [x.cap for x in o.node.items]
                if all(c is not None and c % 8 == 0 and c >= 8 for c in caps) and len(set(caps)) > 1:
                    cands.append((o, caps))
        if not cands:
            return None
        o, caps = rng.choice(cands)
        perm = caps[1:] + caps[:1]
        sid = self.new_id()
        ops = [{"op": "construct", "type": o.t, "value": {"l": [{"s": "q" * (c - 1)} for c in perm], "shape": [len(perm)]}, "place": {"buf": o.bufid if rng.random() < 0.7 else pick_buf(w, rng), "how": "default"}, "form": "single", "id": sid}]
        for i in range(len(perm)):
            ops.append({"op": "set", "obj": sid, "path": [[i]], "value": {"s": rng.choice(["", "z", "zz"])}, "via": "handle"})
        via = self._via(o)
        if quarantined("set.whole_update_via_other_handle") and o.hnd is not None:
            via = "handle"
        ops.append({"op": "set", "obj": o.k, "path": [], "value": {"obj": sid}, "via": via})
        return ops

    def _resplit_plain(self, w):
        """A struct nested by value in a live object, with two dynamic 1-D arrays of numbers of
        different lengths: an object of the part's class with the lengths exchanged (same total size,
        another split) is built and assigned to the nested field through ANOTHER handle of the holder
        (a view rebuilt from the bytes) while the kept handle - which has read the part before - stays
        in use.  The holder's own layout does not change, so none of its handles may go stale."""
        rng = self.rng
        sc = w.schema
        if self.sw.get("hybrid"):
            # (in hybrid worlds a raw re-split under a dressed object goes behind the dressing layer's
            # back; HybridSim has its own scenario that goes through the dressed API)
            return None
        cands = []
        for o in w.live_objs():
            if sc[o.t]["k"] not in ("struct", "array"):
                continue
            for p, t, n in M.enum_paths(sc, o.t, o.node, maxn=60, through_refs=False):
                if not p or "*" in p or sc[t]["k"] != "struct" or typegen.has_refs(sc, t):
                    continue
                dyn = []
                for f in sc[t]["fields"]:
                    ft = sc[f[1]]
                    if ft["k"] == "array" and len(ft["shape"]) == 1 and ft["shape"][0] is None and sc[ft["item"]]["k"] == "sc":
                        dyn.append((f[0], typegen.SC_SIZE[sc[ft["item"]]["t"]], len(n.f[f[0]].items)))
                pairs = [(a, b) for a in dyn for b in dyn if a[0] < b[0] and a[1] == b[1] and a[2] != b[2] and (a[2] * a[1]) % 8 == (b[2] * b[1]) % 8]
                if pairs:
                    cands.append((o, p, t, n, pairs))
        # ... or the object itself is such a struct: a copy of it is made, then the copy (or the source) takes a
        # value with the lengths exchanged through its own kept handle: the other one must not notice
        tops = []
        for o in w.live_objs():
            if sc[o.t]["k"] != "struct" or typegen.has_refs(sc, o.t) or o.hnd is None:
                continue
            dyn = []
            for f in sc[o.t]["fields"]:
                ft = sc[f[1]]
                if ft["k"] == "array" and len(ft["shape"]) == 1 and ft["shape"][0] is None and sc[ft["item"]]["k"] == "sc":
                    dyn.append((f[0], typegen.SC_SIZE[sc[ft["item"]]["t"]], len(o.node.f[f[0]].items)))
            pairs = [(a, b) for a in dyn for b in dyn if a[0] < b[0] and a[1] == b[1] and a[2] != b[2]]
            # ... or two strings whose capacities differ (whole slots): the twin has them exchanged
            strs = [(f[0], "str", o.node.f[f[0]].cap) for f in sc[o.t]["fields"] if sc[f[1]]["k"] == "str" and o.node.f[f[0]].cap is not None and o.node.f[f[0]].cap % 8 == 0 and o.node.f[f[0]].cap >= 8]
            pairs += [(a, b) for a in strs for b in strs if a[0] < b[0] and a[2] != b[2]]
            if pairs:
                tops.append((o, [], o.t, o.node, pairs))
        whole = bool(tops) and (not cands or rng.random() < 0.4)
        if whole:
            cands = tops
        if not cands:
            return None
        o, p, t, n, pairs = rng.choice(cands)
        a, b = rng.choice(pairs)
        newlen = {a[0]: b[2], b[0]: a[2]}
        d = {}
        for f in sc[t]["fields"]:
            if f[0] in newlen and a[1] == "str":
                d[f[0]] = {"s": "q" * (newlen[f[0]] - 1)}  # (minimal capacity of this text = the other string's capacity)
            elif f[0] in newlen:
                it = sc[sc[f[1]]["item"]]["t"]
                d[f[0]] = {"l": [M.gen_scalar(rng, it) for _ in range(newlen[f[0]])], "shape": [newlen[f[0]]]}
            else:
                v = self._same_shape_value(w, f[1], n.f[f[0]])
                if v is None:
                    return None
                d[f[0]] = v
        nid = self.new_id()
        ops = [{"op": "construct", "type": t, "value": {"d": d}, "place": {"buf": o.bufid if rng.random() < 0.7 else pick_buf(w, rng), "how": "default"}, "form": "single", "id": nid}]
        if whole:
            cid = self.new_id()
            ops.insert(0, {"op": "copy", "obj": o.k, "place": rng.choice([{"buf": o.bufid, "how": "default"}, {"buf": pick_buf(w, rng), "how": "default"}, {"ctx": 0}]), "id": cid})
            tgt = cid if rng.random() < 0.6 else o.k
            ops.append({"op": "set", "obj": tgt, "path": [], "value": {"obj": nid}, "via": "handle"})
            if a[1] == "str":
                # the string that has SHRUNK is then offered a text that fitted its old capacity: it must be refused
                small = a if newlen[a[0]] < a[2] else b
                ops.append({"op": "misuse", "kind": "string_long", "obj": tgt, "path": [small[0]], "value": {"s": "y" * (small[2] - 1)}, "via": "handle"})
            return ops
        ops.append({"op": "set", "obj": o.k, "path": p, "value": {"obj": nid}, "via": "view" if rng.random() < 0.7 else self._via(o)})
        # ... and a leaf of the part is then written through the kept handle (where a stale cached view would misplace it)
        leaf = [f for f in sc[t]["fields"] if f[0] in newlen and newlen[f[0]] > 0]
        if leaf:
            f = rng.choice(leaf)
            ops.append({"op": "set", "obj": o.k, "path": list(p) + [f[0], [newlen[f[0]] - 1]], "value": M.gen_scalar(rng, sc[sc[f[1]]["item"]]["t"]), "via": "handle" if o.hnd is not None else "view"})
        return ops

    def set_compound(self, w):
        rng = self.rng
        if rng.random() < 0.08 and not getattr(self, "pending", None):
            sc_ = self._slots_scenario(w)
            if sc_:
                self.pending = sc_[1:]
                return sc_[0]
        if rng.random() < 0.15 and not getattr(self, "pending", None):
            sc_ = self._resplit_plain(w)
            if sc_:
                self.pending = sc_[1:]
                return sc_[0]
        if rng.random() < 0.12:
            # the whole object is updated in place through a kept handle (obj._update(other)): a value of
            # the same total size is byte-copied, whatever its internal split of the dynamic fields
            tops = [o for o in w.live_objs() if (w.schema[o.t]["k"] == "struct" or (w.schema[o.t]["k"] == "array" and w.schema[w.schema[o.t]["item"]]["k"] == "str")) and not typegen.has_refs(w.schema, o.t)]
            rng.shuffle(tops)
            for o in tops[:3]:
                cands = [x for x in w.live_objs(o.t) if x.k != o.k and (w.schema[o.t]["k"] == "struct" or _shape_compatible(w.schema, o.t, o.node, x.node))]
                if cands:
                    via = self._via(o)
                    if quarantined("set.whole_update_via_other_handle") and o.hnd is not None:
                        via = "handle"  # known finding C06-stale-handle-after-whole-update lives in the other case
                    return {"op": "set", "obj": o.k, "path": [], "value": {"obj": rng.choice(cands).k}, "via": via}
        if rng.random() < 0.3:
            # the value is another xobject of the same type (any buffer); for compounds that hold
            # references this re-binds them field by field: aliased in the same buffer, duplicated across
            got = self._pick_path(w, lambda s, t, n, p: s[t]["k"] == "struct" and "*" not in p)
            if got is not None:
                o, p, t, n = got
                cands = [x for x in w.live_objs(t) if x.k != o.k and (_shape_compatible(w.schema, t, n, x.node) or not typegen.has_refs(w.schema, t))]
                if cands:
                    return {"op": "set", "obj": o.k, "path": p, "value": {"obj": rng.choice(cands).k}, "via": self._via(o)}
        got = None
        if rng.random() < 0.25:
            # a dict for a struct that holds references: references named in it with None are nulled
            got = self._pick_path(w, lambda s, t, n, p: s[t]["k"] == "struct" and typegen.has_refs(s, t) and all(s[f[1]]["k"] in ("sc", "str", "ref", "uref") or not typegen.has_refs(s, f[1]) for f in s[t]["fields"]))
        if got is None:
            got = self._pick_path(w, lambda s, t, n, p: s[t]["k"] in ("struct", "array") and not typegen.has_refs(s, t))
        if got is None:
            return None
        o, p, t, n = got
        value = self._same_shape_value(w, t, n)
        if value is None:
            return None
        return {"op": "set", "obj": o.k, "path": p, "value": value, "via": self._via(o)}

    def _same_shape_value(self, w, t, node):
        """Plain-data value spec with exactly the shape/capacities of node."""
        rng = self.rng
        ty = w.schema[t]
        k = ty["k"]
        if k == "sc":
            return M.gen_scalar(rng, ty["t"])
        if k == "str":
            cap = node.cap if node.cap is not None else 1
            fits = [s for s in M.STRINGS if len(s.encode()) + 1 <= cap]
            return {"s": rng.choice(fits or [""])}
        if k == "struct":
            d = {}
            for f in ty["fields"]:
                v = self._same_shape_value(w, f[1], node.f[f[0]])
                if w.schema[f[1]]["k"] in ("ref", "uref"):
                    if v == "keep":
                        continue  # field not mentioned in the dict: stays as it is
                    d[f[0]] = None
                    continue
                if v is None:
                    return None
                d[f[0]] = v
            return {"d": d}
        if k == "array":
            n = len(node.items)
            if n == 0 and len(node.shape) > 1:
                return None
            its = [self._same_shape_value(w, ty["item"], x) for x in node.items]
            if any(x is None for x in its):
                return None
            if w.schema[ty["item"]]["k"] == "sc" and self.sw.get("nd_input") and rng.random() < 0.4:
                hexd = "".join(x["x"] for x in its)
                return {"nd": {"hex": hexd, "src": w.schema[ty["item"]]["t"], "shape": list(node.shape), "layout": rng.choice(["C", "C", "F", "strided", "be"])}}
            return {"l": its, "shape": list(node.shape)}
        if k == "ref":
            # inside a compound value: null the reference, or leave it bound where it is
            return None if rng.random() < 0.5 or node.to is None else "keep"
        if k == "uref":
            return None if rng.random() < 0.5 or node.to is None else "keep"
        return None

    def bind(self, w):
        rng = self.rng
        got = self._pick_path(w, lambda s, t, n, p: s[t]["k"] in ("ref", "uref"))
        if got is None:
            return None
        o, p, t, n = got
        ty = w.schema[t]
        # where does the holder live? (through references: in the target's buffer, same buffer by construction)
        r = rng.random()
        if r < 0.15:
            target = None
        else:
            if ty["k"] == "ref":
                tts = [(None, ty["to"])]
            else:
                tts = [(m, mt) for m, mt in enumerate(ty["members"])]
            m, tt = rng.choice(tts)
            same = [x for x in w.live_objs(tt) if x.buf is o.buf]
            other = [x for x in w.live_objs(tt) if x.buf is not o.buf]
            target = None
            if r < 0.5 and same:
                target = {"obj": rng.choice(same).k}
            elif r < 0.65 and other:
                # a referent in another buffer has to be duplicated, deeply when it holds references itself
                deep = [x for x in other if typegen.has_refs(w.schema, tt)]
                target = {"obj": rng.choice(deep or other).k}
            elif r < 0.72 or (ty["k"] == "uref" and r < 0.85):
                # a nested part of an object in the same buffer
                for x in w.live_objs(buf=o.buf):
                    parts = [(pp, pt, pn) for pp, pt, pn in M.enum_paths(w.schema, x.t, x.node, through_refs=False) if pp and pt == tt and isinstance(pp[-1], (str, list)) and "*" not in pp]
                    if parts:
                        pp, _, _ = rng.choice(parts)
                        target = {"part": [x.k, pp]}
                        break
            if target is None:
                v = self.vg(w, o.bufid).gen(tt, depth=3)
                target = v if m is None else {"m": m, "v": v}
            elif m is not None:
                target["m"] = m
                if "obj" in target and rng.random() < 0.3:
                    target["via_union"] = True
                if "obj" in target and not target.get("via_union") and not getattr(self, "pending", None):
                    # ... and next the reference is moved to the first part of that object, when the part's
                    # type is a member too (same address, another member index)
                    x = w.objs[target["obj"]]
                    xt = w.schema[x.t]
                    if xt["k"] == "struct" and xt["fields"] and xt["fields"][0][1] in ty["members"] and x.buf is o.buf and not typegen.is_dynamic(w.schema, x.t) and rng.random() < 0.7:
                        self.pending = [{"op": "bind", "obj": o.k, "path": p, "target": {"part": [x.k, [xt["fields"][0][0]]], "m": ty["members"].index(xt["fields"][0][1])}, "via": self._via(o)}]
        return {"op": "bind", "obj": o.k, "path": p, "target": target, "via": self._via(o)}

    def copy(self, w):
        rng = self.rng
        live = [o for o in w.live_objs() if w.schema[o.t]["k"] != "str" or o.hnd is not None]
        if not live:
            return None
        o = rng.choice(live)
        if M.node_leaves(w.schema, o.t, o.node) > 1200 or self.world_leaves(w) > 6000:
            small = [x for x in live if M.node_leaves(w.schema, x.t, x.node) <= 200]
            if not small or self.world_leaves(w) > 12000:
                return None
            o = rng.choice(small)
        r = rng.random()
        if r < 0.45:
            place = {"buf": w.bufs.index(o.buf), "how": "default"}
        else:
            place = self.place(w)
        op = {"op": "copy", "obj": o.k, "place": place, "id": self.new_id()}
        if rng.random() < 0.3 and w.schema[o.t]["k"] in ("struct", "array"):
            # copy-construct from a nested part (a view obtained through the parent)
            parts = [p for p, t, n in M.enum_paths(w.schema, o.t, o.node, maxn=200, through_refs=False) if p and w.schema[t]["k"] in ("struct", "array") and isinstance(p[-1], (str, list))]
            if parts:
                op["part"] = rng.choice(parts)
        return op

    def drop(self, w):
        cands = [o for o in w.live_objs() if o.hnd is not None and w.schema[o.t]["k"] != "str"]
        if not cands:
            return None
        return {"op": "drop_handle", "obj": self.rng.choice(cands).k}

    def raw(self, w):
        rng = self.rng
        live_regions = [i for i, r in enumerate(w.regions) if r is not None]
        if live_regions and rng.random() < 0.5:
            return {"op": "raw_free", "region": rng.choice(live_regions), "scribble": rng.getrandbits(31) if rng.random() < 0.7 else None}
        return {"op": "raw_alloc", "buf": pick_buf(w, rng), "size": rng.choice([1, 3, 8, 13, 24, 64, 100]), "align": rng.random() < 0.5, "fill": rng.getrandbits(31)}

    def kill(self, w):
        """Free the allocation of a live top-level object (scribbling it first): objects copied
        or constructed from it earlier must not depend on its storage."""
        cands = [o for o in w.live_objs() if sum(1 for off, size in o.buf._sim_allocs if off == o.off) == 1 and any(off == o.off and size > 0 for off, size in o.buf._sim_allocs)]
        if not cands:
            return None
        o = self.rng.choice(cands)
        return {"op": "kill", "obj": o.k, "scribble": self.rng.getrandbits(31)}

    def grow(self, w):
        rng = self.rng
        if self.sw.get("kill") and rng.random() < 0.25:
            op = self.kill(w)
            if op is not None:
                return op
        b = pick_buf(w, rng)
        if rng.random() < 0.3:
            return {"op": "grow_until", "buf": b}
        return {"op": "grow", "buf": b, "n": rng.choice([0, 1, 7, 8, 64, 256])}

    def restart(self, w):
        rng = self.rng
        live = [o for o in w.live_objs() if w.schema[o.t]["k"] != "str" and _picklable(w, o.t)]
        if not live or self.world_leaves(w) > 6000:
            return None
        k = rng.choice([1, 1, 2, 3])
        objs = rng.sample(live, min(k, len(live)))
        op = {"op": "restart", "objs": [o.k for o in objs], "via": [self._via(o) for o in objs], "id": self.new_id(len(objs))}
        if self.sw.get("cold_restart") and not self.cold_done and rng.random() < 0.5:
            # the same pickle is also loaded in a fresh interpreter (at most once per run: ~0.4 s)
            op["cold"] = True
            self.cold_done = True
        return op

    def json(self, w):
        live = [o for o in w.live_objs() if _jsonable(w.schema, o.t)]
        if not live:
            return None
        return {"op": "json_rebuild", "obj": self.rng.choice(live).k, "id": self.new_id()}

    def misuse(self, w):
        from . import objmisuse

        return objmisuse.gen(self, w)


def _picklable(w, t):
    ty = w.schema[t]
    return ty["k"] == "struct" or (ty["k"] == "array" and ty["decl"] == "class")


def _jsonable(schema, t):
    ty = schema[t]
    if typegen.has_refs(schema, t):
        return False
    if ty["k"] == "struct":
        return all(schema[f[1]]["k"] in ("sc", "str") or _jsonable(schema, f[1]) for f in ty["fields"])
    if ty["k"] == "array":
        return len(ty["shape"]) == 1 and (schema[ty["item"]]["k"] in ("sc", "str") or _jsonable(schema, ty["item"]))
    return False


class ListSource:
    def __init__(self, ops):
        self.ops = list(ops)
        self.k = 0

    def next(self, w):
        if self.k >= len(self.ops):
            return None
        self.k += 1
        return self.ops[self.k - 1]


class Skip(Exception):
    """Operands of a recorded op no longer exist (after minimisation)."""


# ------------------------------------------------------------------------------


class ObjSim:
    name = "objsim"
    components = {
        "real": ["xobjects.struct / array / string / ref / scalar / typeutils (constructors, accessors, _from_buffer, _update)", "xobjects.context.XBuffer allocate/free/grow", "BufferNumpy / BufferByteArray", "ContextCpu.new_buffer", "pickle protocol of Struct/Array/buffers/contexts, in process and (cold restart) in a fresh interpreter that loads the same bytes with the real library"],
        "stub": ["_new_buffer/allocate/grow/free wrapped for logging and planned relocation (bodies are the real ones)", "contexts are SimContext(ContextCpu) handing out Sim buffers"],
    }
    expected_probes = {}
    not_claimed = {
        "C01": ["values the input form does not define (Arr(n) contents) are not checked"],
        "C05": ["padding bytes and free space are never compared"],
    }

    world_cls = None  # set below (ObjWorld); engines built on ObjSim override these
    step_cls = None
    source_cls = None

    def gen_world(self, rng, profile, tier):
        return gen_world(rng, profile, tier)

    def make_world(self, spec, res):
        """Build the world; may record violations in res (returns None then)."""
        return self.world_cls(spec)

    def run(self, prop, profile, rng=None, replay=None, tier="quick"):
        res = RunResult()
        res.profile = profile
        if replay is not None:
            spec = replay["world"]
            src = ListSource(replay["ops"])
        else:
            spec = self.gen_world(rng, profile, tier)
            src = self.source_cls(rng, profile, spec)
        old_default = (xo.typeutils.context_default, xo.hybrid_class.context_default)
        ops = []
        res.replay = {"world": spec, "ops": ops, "profile": profile, "engine": self.name}
        w = self.make_world(spec, res)
        if w is None:
            return res
        default_ctx = seams.SimContext(plan={"on_new": w._on_new})
        xo.typeutils.context_default = default_ctx
        xo.hybrid_class.context_default = default_ctx
        w.default_ctx = default_ctx
        own = OWN_OPS.get(prop, ())
        try:
            while True:
                op = src.next(w)
                if op is None:
                    break
                st = self.step_cls(w, op, res, prop)
                try:
                    st.execute()
                except Skip:
                    res.skipped += 1
                    continue
                ops.append(op)
                res.steps += 1
                if op["op"] in own:
                    res.own_ops += 1
                res.log.append([res.steps, op["op"], st.outcome, [int(b.capacity) for b in w.bufs], st.alloc_log, sorted({v.oracle for v in st.viols})])
                if st.viols:
                    res.viols = st.viols
                    res.viol_step = res.steps - 1
                    break
        finally:
            xo.typeutils.context_default, xo.hybrid_class.context_default = old_default
        for b in w.bufs:
            for kf, n in b._ctl.fired.items():
                res.fault(kf, n)
        return res


class Step:
    def __init__(self, w, op, res, lens):
        self.w, self.op, self.res, self.lens = w, op, res, lens
        self.viols = []
        self.outcome = "ok"
        self.alloc_log = []
        self.new_allocs = []  # (buf, off, size)
        self.allowed = []  # (buf, off, end) extents the op may write
        self.kind = op["op"]
        self.touched = set()  # object ids whose value may legitimately change

    # oracles that never consult the model (rebuilt view vs kept handle; independent decoder):
    # when they trip under another property's lens the model is still in step with the system,
    # so the run can soundly go on looking for that lens's own violations (DESIGN 2.6)
    SOFT = {"view_ne_handle", "view_meta_ne_handle", "view_read_raised", "decoder_ne_model", "layout_rule_broken"}

    def viol(self, prop, oracle, sig, detail=""):
        if oracle in self.SOFT and prop != self.lens and prop in ("C05", "C06"):
            self.res.foreign_seen.add(prop)
            return
        self.viols.append(Viol(prop, oracle, [str(s) for s in sig], detail))

    # -- driver
    def execute(self):
        w, op = self.w, self.op
        kind = self.kind
        fn = getattr(self, "op_" + kind)
        self.pre = w.bytes_of()
        self.pre_layout = self.layouts() if kind in INPLACE_KINDS else None
        for b in w.bufs:
            b._ctl.drain()
        fn()
        self.collect_allocs()
        self.oracle_bytes()
        self.oracle_coherence()

    def prop_of_step(self):
        return OP_PROP.get(self.kind)

    # -- oracle 1
    def collect_allocs(self):
        w = self.w
        for b in w.bufs:
            for ev in b._ctl.drain():
                self.alloc_log.append([b._ctl.bid] + list(ev))
                if ev[0] == "alloc":
                    _, size, align, off, cap = ev
                    al = b.default_alignment if align else 1
                    if off < 0 or off + size > b.capacity:
                        self.viol("C04", "out_of_bounds", [self.kind], f"allocate({size}) -> {off}, capacity {b.capacity}")
                    if off % al:
                        self.viol("C04", "misaligned", [self.kind], f"offset {off} alignment {al}")
                    for o2, s2 in b._sim_allocs:
                        if size > 0 and s2 > 0 and off < o2 + s2 and o2 < off + size:
                            self.viol("C04", "overlap_live", [self.kind], f"[{off},{off+size}) overlaps [{o2},{o2+s2})")
                            break
                    b._sim_allocs.append((off, size))
                    self.new_allocs.append((b, off, size))
                    self.allowed.append((b, off, off + size))
                elif ev[0] == "free":
                    _, off, size = ev
                    if (off, size) in b._sim_allocs:
                        b._sim_allocs.remove((off, size))
                elif ev[0] == "grow":
                    self.res.fault("storage_relocated")
        for b in w.bufs:
            if len(seams.raw_bytes(b)) != b.capacity:
                self.viol("C04", "storage_length_ne_capacity", [self.kind], f"{len(seams.raw_bytes(b))} vs {b.capacity}")

    # -- oracle 2
    def oracle_bytes(self):
        w = self.w
        post = w.bytes_of()
        tagmap_other, tagmap_out = TAG_OTHER, TAG_OUT
        for i, (a, b) in enumerate(zip(self.pre, post)):
            n = min(len(a), len(b))
            if a[:n] == b[:n]:
                continue
            buf = w.bufs[i]
            aa = np.frombuffer(a[:n], dtype=np.uint8)
            bb = np.frombuffer(b[:n], dtype=np.uint8)
            changed = np.nonzero(aa != bb)[0]
            mask = np.zeros(n, dtype=bool)
            for bf, s, e in self.allowed:
                if bf is buf:
                    mask[s : min(e, n)] = True
            bad = changed[~mask[changed]]
            if len(bad) == 0:
                continue
            j = int(bad[0])
            inside_other = any(o2 <= j < o2 + s2 for o2, s2 in buf._sim_allocs if (buf, o2, s2) not in [(x, y, z) for x, y, z in self.new_allocs])
            if self.kind in ("grow", "grow_until", "raw_alloc", "raw_free", "drop_handle", "kill"):
                prop = "C04"
            elif inside_other:
                prop = tagmap_other.get(self.kind, "C03")
            else:
                if self.kind == "misuse":
                    continue  # bytes outside every live object: not an existing object's value
                prop = tagmap_out.get(self.kind, "C03")
            if self.kind == "misuse":
                # identify the finding by the misuse class, not by the type it was tried on
                self.viol("C11", "refused_or_invalid_operation_modified_existing_object", [self.op.get("kind"), self.outcome.split(":")[0]], f"buffer {i} byte {j} (+{len(bad)-1} more) changed although the operation cannot be honoured; op {str(self.op)[:400]}")
                continue
            self.viol(prop, "byte_changed_outside_allowed_extent", [self.kind, "in_other_live_object" if inside_other else "outside_objects", self.feat()], f"buffer {i} byte {j} (+{len(bad)-1} more) changed; allowed {[(s, e) for bf, s, e in self.allowed if bf is buf][:6]}; op {str(self.op)[:300]}")

    def feat(self):
        op = self.op
        w = self.w
        try:
            if "type" in op:
                return typegen.features(w.schema, op["type"])
            if "obj" in op:
                o = w.objs[op["obj"]]
                if "path" in op:
                    t, _, _, _ = M.node_at(w.schema, o.t, o.node, op["path"])
                    return typegen.features(w.schema, o.t) + ">" + typegen.features(w.schema, t)
                return typegen.features(w.schema, o.t)
        except Exception:
            pass
        return "-"

    # -- helpers
    def layouts(self):
        """Decoder layout maps of every live object (part extents)."""
        w = self.w
        out = {}
        raws = w.bytes_of()
        for o in w.live_objs():
            lay = []
            try:
                w.dec.decode(o.t, raws[w.bufs.index(o.buf)], o.off, o.bufid, lay)
                out[o.k] = sorted((repr(p), s - o.off, e - o.off, kd) for p, s, e, kd in lay)
            except DecodeError:
                out[o.k] = None
        return out

    def get_obj(self, k):
        w = self.w
        if k is None or k >= len(w.objs) or w.objs[k] is None or not w.objs[k].alive:
            raise Skip()
        return w.objs[k]

    def resolve_place(self, place, cls, pyargs, pykwargs):
        """Returns kwargs for the constructor and (for explicit offsets) the region."""
        w = self.w
        if place == "default_ctx":
            return {}
        if "ctx" in place:
            if place["ctx"] >= len(w.ctxs):
                raise Skip()
            return {"_context": w.ctxs[place["ctx"]]}
        if place["buf"] >= len(w.bufs):
            raise Skip()
        buf = w.bufs[place["buf"]]
        how = place["how"]
        if how == "default":
            return {"_buffer": buf}
        if how in ("aligned", "packed"):
            return {"_buffer": buf, "_offset": how}
        # explicit offset into a region the harness reserves: learn the size by
        # a dry run in a throw-away buffer, reserve, then construct there
        scratch = xo.ContextCpu().new_buffer(64)
        try:
            tmp = cls(*pyargs, _buffer=scratch, **pykwargs)
            size = int(tmp._size) if getattr(tmp, "_size", None) is not None else int(tmp._get_size())
        except Exception:
            return {"_buffer": buf}
        size += place.get("pad", 0)
        off = int(buf.allocate(size, align=place.get("align", True)))
        return {"_buffer": buf, "_offset": off}

    def register(self, t, node, hnd, oid=None):
        """Objects are addressed by a stable id carried by the creating op, so
        that dropping earlier ops during minimisation keeps later ops meaningful."""
        w = self.w
        if oid is None:
            oid = self.op.get("id")
        if oid is None:
            oid = len(w.objs)
        while len(w.objs) <= oid:
            w.objs.append(None)
        if w.objs[oid] is not None:
            raise Skip()
        o = Obj(w, oid, t, node, hnd._buffer, hnd._offset, hnd)
        node.loc = (o.bufid, o.off)
        w.objs[oid] = o
        return o

    def holder_bufid(self, place):
        if isinstance(place, dict) and "buf" in place and place["buf"] < len(self.w.bufs):
            return self.w.bufs[place["buf"]]._ctl.bid
        return None

    # -- operations -------------------------------------------------------------------
    def op_construct(self):
        w, op = self.w, self.op
        t = op["type"]
        if t >= len(w.schema):
            raise Skip()
        cls = w.classes[t]
        mat = M.Materialiser(w.schema, w.classes, w.objs, self.holder_bufid(op["place"]))
        try:
            py, node = mat.mat(t, op["value"])
        except KeyError:
            raise Skip()
        for hb, hoff, hsize in mat.helper_allocs:
            self.allowed.append((hb, hoff, hoff + hsize))
            hb._sim_allocs.append((hoff, hsize))
        if op.get("form") == "kwargs" and isinstance(py, dict):
            args, kwargs = (), py
        elif isinstance(py, tuple) and "dims" in op["value"]:
            args, kwargs = py, {}
        else:
            args, kwargs = (py,), {}
        if mat.foreign:
            self.res.fault("foreign_operand", mat.foreign)
        try:
            pk = self.resolve_place(op["place"], cls, args, kwargs)
            for b in w.bufs:
                b._ctl.drain()  # the dry run and reservation are the harness's own
            if isinstance(pk.get("_offset"), int):
                # region reserved by the harness: the object may write inside it
                pass
            hnd = cls(*args, **kwargs, **pk)
        except Exception as e:
            self.outcome = "raised:" + exc_sig(e)
            self.viol("C01", "construct_raised", ["construct", exc_sig(e), typegen.features(w.schema, t), _form(op["value"])], f"{type(e).__name__}: {e}; type {w.schema[t]}; value {str(op['value'])[:300]}")
            return
        if isinstance(pk.get("_offset"), int):
            size = int(hnd._size) if getattr(hnd, "_size", None) is not None else int(hnd._get_size())
            self.allowed.append((hnd._buffer, pk["_offset"], pk["_offset"] + size))
            hnd._buffer._sim_allocs.append((pk["_offset"], size))
            self.res.probe("explicit_offset_placement")
        o = self.register(t, node, hnd)
        self.new_obj = o
        self.res.features.add("construct:" + typegen.features(w.schema, t) + ":" + _form(op["value"]) + ":" + _placek(op["place"]))
        # post-condition (C01): every accessor returns the model value, incl. to_nplike
        self.check_obj(o, "C01", nplike=True, what="construct_readback")
        self.check_size(o)

    def check_size(self, o):
        """C03: reported size == extent occupied (decoder) == bytes reserved."""
        w = self.w
        hnd = o.hnd
        try:
            rep = int(hnd._size) if getattr(hnd, "_size", None) is not None else int(hnd._get_size())
            rep2 = int(hnd._get_size()) if hasattr(hnd, "_get_size") else rep
        except Exception as e:
            self.viol("C03", "size_unreadable", [self.kind, exc_sig(e)], repr(e))
            return
        raw = seams.raw_bytes(o.buf)
        try:
            _, end = w.dec.decode(o.t, raw, o.off, o.bufid)
            ext = end - o.off
        except DecodeError:
            return  # reported by the decoder oracle
        reserved = [s for (b, off, s) in self.new_allocs if b is o.buf and off == o.off]
        if rep != ext or rep2 != ext:
            self.viol("C03", "reported_size_ne_extent", [self.kind, typegen.features(w.schema, o.t)], f"_size={rep} _get_size()={rep2} decoder extent={ext}")
        if reserved and reserved[0] < ext:
            self.viol("C03", "extent_exceeds_reservation", [self.kind, typegen.features(w.schema, o.t)], f"reserved {reserved[0]} extent {ext}")

    def op_update_whole(self, o):
        """obj._update(other) on a whole top-level struct through the kept handle or a view."""
        w, op = self.w, self.op
        is_arr = w.schema[o.t]["k"] == "array" and w.schema[w.schema[o.t]["item"]]["k"] == "str"  # (struct items are byte-copied one by one when sizes agree: not modelled here)
        if not (isinstance(op.get("value"), dict) and "obj" in op["value"]) or not (w.schema[o.t]["k"] == "struct" or is_arr) or typegen.has_refs(w.schema, o.t):
            raise Skip()
        src = self.get_obj(op["value"]["obj"])
        if src.t != o.t or src is o:
            raise Skip()
        same_size = self._extent(o) == self._extent(src) and self._extent(o) > 0
        fits = _shape_compatible(w.schema, o.t, o.node, src.node) and _same_caps(w.schema, o.t, o.node, src.node)
        if is_arr:
            # an array of dynamically sized items is updated item by item, every item inside the place
            # and space it got at creation: only values whose items all fit are legitimate, and the
            # array's own layout (offsets of the items) stays what it was
            if not _shape_compatible(w.schema, o.t, o.node, src.node):
                raise Skip()
            same_size = False
            if self._extent(o) == self._extent(src) and not fits:
                self.res.probe("whole_array_update_same_size_other_slots")
            fits = True
        if not (same_size or fits):
            raise Skip()  # may legitimately be refused
        if same_size and self._inner_referenced(o.t, o.node):
            raise Skip()  # references into the replaced object would be left pointing at reshuffled bytes
        start = o.handle() if op.get("via") == "handle" and o.hnd is not None else o.view()
        self._allow_path(o, [])
        self.res.features.add(f"update_whole:{typegen.features(w.schema, o.t)}:{'same_size' if same_size else 'fits'}:{op.get('via')}")
        if src.buf is not o.buf:
            self.res.fault("foreign_operand")
        try:
            start._update(src.handle())
        except Exception as e:
            self.outcome = "raised:" + exc_sig(e)
            self.viol("C10", "fitting_assignment_raised", ["update_whole", exc_sig(e), typegen.features(w.schema, o.t)], f"{type(e).__name__}: {e}")
            return
        vnode = M.copy_node(w.schema, o.t, src.node, False)
        if same_size:
            # byte copy: the object takes over the value wholesale (shapes, capacities, split)
            o.node.f = vnode.f
            if self.pre_layout is not None:
                self.pre_layout.pop(o.k, None)
            if not fits:
                self.res.probe("whole_update_same_size_other_split")
        else:
            M.assign_into(w.schema, o.t, o.node, vnode)
        self.res.probe("whole_object_update")

    def op_set(self):
        w, op = self.w, self.op
        o = self.get_obj(op["obj"])
        path = op["path"]
        if not path:
            return self.op_update_whole(o)
        try:
            t, node, parent, key = M.node_at(w.schema, o.t, o.node, path)
        except Exception:
            raise Skip()
        if node is None or parent is None or isinstance(parent, (M.RefLeaf, M.URefLeaf)):
            raise Skip()
        mat = M.Materialiser(w.schema, w.classes, w.objs, o.bufid)
        try:
            py, vnode = mat.mat(t, op["value"])
        except KeyError:
            raise Skip()
        replace_whole = False
        if isinstance(op["value"], dict) and "d" in op["value"] and isinstance(vnode, M.StructNode):
            # a dict updates the fields it names; the others stay as they are
            vnode.f = {kf: v for kf, v in vnode.f.items() if kf in op["value"]["d"]}
        if not (isinstance(op["value"], dict) and "obj" in op["value"]) and not _shape_compatible(w.schema, t, node, vnode):
            raise Skip()
        if isinstance(op["value"], dict) and "obj" in op["value"]:
            if op["value"]["obj"] == o.k or w.schema[t]["k"] != "struct":
                raise Skip()
            srco = w.objs[op["value"]["obj"]]
            if not typegen.has_refs(w.schema, t) and self._part_extent(o, path) == self._extent(srco) and self._extent(srco) > 0:
                # same class, same total size, no references: the library byte-copies the value, which
                # replaces the nested object wholesale (its shapes, capacities and split come along)
                replace_whole = not (_shape_compatible(w.schema, t, node, vnode) and _same_caps(w.schema, t, node, vnode))
                if replace_whole and self._inner_referenced(t, node):
                    raise Skip()  # references into the replaced part would be left pointing at reshuffled bytes
            elif not _shape_compatible(w.schema, t, node, vnode):
                raise Skip()  # would be updated field by field, which may legitimately refuse it
            if typegen.has_refs(w.schema, t):
                self.res.probe("assignment_of_reference_bearing_compound")
            if mat.foreign or w.objs[op["value"]["obj"]].buf is not o.buf:
                self.res.fault("foreign_operand")
        start = o.handle() if op.get("via") == "handle" and o.hnd is not None else o.view()
        self.res.features.add(f"set:{typegen.features(w.schema, t)}:{op.get('via')}:{'xref' if '*' in path else 'direct'}")
        self._allow_path(o, path)
        try:
            holder = o.walk(path[:-1], start)
            last = path[-1]
            if isinstance(last, str):
                setattr(holder, last, py)
            else:
                if op.get("np_index"):
                    last = [np.dtype(op["np_index"]).type(i) for i in last]
                    self.res.probe("numpy_integer_index")
                holder[tuple(last) if len(last) > 1 else last[0]] = py
        except Exception as e:
            self.outcome = "raised:" + exc_sig(e)
            self.viol("C10", "fitting_assignment_raised", ["set", exc_sig(e), typegen.features(w.schema, t), _form(op["value"])], f"{type(e).__name__}: {e}; path {path}; value {str(op['value'])[:200]}")
            return
        if replace_whole:
            # (in place: references to the part itself go on denoting it, with its new content)
            if isinstance(node, M.StructNode) and isinstance(vnode, M.StructNode):
                node.f = vnode.f
            else:
                M.store_at(parent, key, vnode)
            if self.pre_layout is not None:
                self.pre_layout.pop(o.k, None)
                if "*" in path:
                    self.pre_layout = None  # (the part lives in another object, reached through a reference)
            self.res.probe("nested_assignment_same_size_other_split")
        else:
            M.store_at(parent, key, M.assign_into(w.schema, t, node, vnode))
        self.res.probe("set_via_" + str(op.get("via")))
        if "*" in path:
            self.res.probe("write_through_reference")

    def _inner_referenced(self, t, node, itself=False):
        """Is anything strictly inside `node` (or, with itself=True, `node` too) the target of a live reference?"""
        w = self.w
        inside = {id(node)} if itself else set()

        def collect(t, nd, top):
            if nd is None:
                return
            if not top and isinstance(nd, (M.StructNode, M.ArrayNode)):
                inside.add(id(nd))
            ty = w.schema[t]
            if ty["k"] == "struct":
                for f in ty["fields"]:
                    collect(f[1], nd.f[f[0]], False)
            elif ty["k"] == "array" and w.schema[ty["item"]]["k"] in ("struct", "array"):
                for x in nd.items:
                    collect(ty["item"], x, False)

        collect(t, node, True)
        if not inside:
            return False
        for x in w.live_objs():
            for p, tt, n in M.enum_paths(w.schema, x.t, x.node, maxn=400):
                if isinstance(n, (M.RefLeaf, M.URefLeaf)) and n.to is not None and id(n.to) in inside:
                    return True
        return False

    def _part_extent(self, o, path):
        try:
            lay = []
            self.w.dec.decode(o.t, seams.raw_bytes(o.buf), o.off, o.bufid, lay, None, (), True)
        except DecodeError:
            return -1
        key = tuple(tuple(el) if isinstance(el, list) else el for el in path)
        hit = [x for x in lay if x[0] == key]
        return hit[0][2] - hit[0][1] if hit else -1

    def _allow_path(self, o, path):
        """Allocations that physically contain the addressed element: the top
        object's, and those of reference targets crossed on the way."""
        w = self.w
        locs = [(o.bufid, o.off)]
        t, node = o.t, o.node
        for i, el in enumerate(path):
            if el == "*":
                _, n2, _, _ = M.node_at(w.schema, o.t, o.node, path[: i + 1])
                if n2 is not None and n2.loc is not None:
                    locs.append(n2.loc)
        for bid, off in locs:
            buf = [b for b in w.bufs if b._ctl.bid == bid][0]
            for o2, s2 in buf._sim_allocs:
                if o2 <= off < o2 + max(s2, 1):
                    self.allowed.append((buf, o2, o2 + s2))

    def op_bind(self):
        w, op = self.w, self.op
        o = self.get_obj(op["obj"])
        path = op["path"]
        try:
            t, node, parent, key = M.node_at(w.schema, o.t, o.node, path)
        except Exception:
            raise Skip()
        if node is None or parent is None or w.schema[t]["k"] not in ("ref", "uref"):
            raise Skip()
        # the holder's buffer: references stay inside one buffer, so it is the top object's
        mat = M.Materialiser(w.schema, w.classes, w.objs, o.bufid)
        try:
            py, leaf = mat.mat(t, op["target"])
        except KeyError:
            raise Skip()
        if w.schema[t]["k"] == "uref" and isinstance(py, tuple) and self.op["target"] and "obj" in self.op["target"]:
            pass
        start = o.handle() if op.get("via") == "handle" and o.hnd is not None else o.view()
        self._allow_path(o, path)
        kindb = "null" if op["target"] is None else "existing" if mat.aliased else "foreign" if mat.foreign else "value"
        if mat.twin:
            kindb = "same_name_twin"
            self.tag = "same_name_twin"
        self.res.features.add(f"bind:{w.schema[t]['k']}:{kindb}:{'xref' if '*' in path else 'direct'}")
        self.res.probe("bind_" + kindb)
        if mat.foreign:
            self.res.fault("foreign_operand", mat.foreign)
            tt0 = w.schema[t]["to"] if w.schema[t]["k"] == "ref" else None
            if tt0 is not None and typegen.has_refs(w.schema, tt0):
                self.res.probe("bind_foreign_referent_that_holds_references")
        try:
            holder = o.walk(path[:-1], start)
            last = path[-1]
            if isinstance(last, str):
                setattr(holder, last, py)
            else:
                holder[tuple(last) if len(last) > 1 else last[0]] = py
        except Exception as e:
            self.outcome = "raised:" + exc_sig(e)
            self.viol("C08", "bind_raised", ["bind", exc_sig(e), w.schema[t]["k"], kindb], f"{type(e).__name__}: {e}; path {path}; target {str(op['target'])[:200]}")
            return
        M.store_at(parent, key, leaf)
        self.bound = (o, path, t, leaf, kindb)

    def op_copy(self):
        w, op = self.w, self.op
        src = self.get_obj(op["obj"])
        if w.schema[src.t]["k"] == "str" and src.hnd is None:
            raise Skip()
        src_t, src_node, src_handle = src.t, src.node, src.handle()
        if op.get("part"):
            try:
                src_t, src_node, _, _ = M.node_at(w.schema, src.t, src.node, op["part"])
            except Exception:
                raise Skip()
            if src_node is None or w.schema[src_t]["k"] not in ("struct", "array"):
                raise Skip()
            src_handle = src.walk(op["part"])
            self.res.probe("copy_of_nested_part")
        cls = w.classes[src_t]
        hb = self.holder_bufid(op["place"])
        same_buf = hb is not None and hb == src.bufid
        try:
            pk = self.resolve_place(op["place"], cls, (src_handle,), {})
            for b in w.bufs:
                b._ctl.drain()
            hnd = cls(src_handle, **pk)
        except Exception as e:
            self.outcome = "raised:" + exc_sig(e)
            self.viol("C09", "copy_raised", ["copy", exc_sig(e), typegen.features(w.schema, src.t)], f"{type(e).__name__}: {e}")
            return
        if isinstance(pk.get("_offset"), int):
            size = int(hnd._size) if getattr(hnd, "_size", None) is not None else int(hnd._get_size())
            self.allowed.append((hnd._buffer, pk["_offset"], pk["_offset"] + size))
            hnd._buffer._sim_allocs.append((pk["_offset"], size))
        same_buf = hnd._buffer is src.buf
        node = M.copy_node(w.schema, src_t, src_node, same_buf)
        o = self.register(src_t, node, hnd)
        o.copy_of = src.k
        self.new_obj = o
        if not same_buf:
            self.res.fault("foreign_operand")
        self.res.features.add(f"copy:{typegen.features(w.schema, src_t)}:{'same' if same_buf else 'other_ctx' if hnd._buffer.context is not src.buf.context else 'other_buf'}:{'part' if op.get('part') else 'whole'}")
        self.res.probe("copy_" + ("same_buffer" if same_buf else "other_buffer"))
        if typegen.has_refs(w.schema, src_t):
            self.res.probe("copy_of_reference_bearing_object")
        self.check_obj(o, "C09", what="copy_not_equal")
        # storage disjoint from the source's
        s0, s1 = src.off, src.off + self._extent(src)
        c0, c1 = o.off, o.off + self._extent(o)
        if o.buf is src.buf and c0 < s1 and s0 < c1:
            self.viol("C09", "copy_overlaps_source", ["copy"], f"src [{s0},{s1}) copy [{c0},{c1})")
        self.check_size(o)

    def _extent(self, o):
        try:
            _, end = self.w.dec.decode(o.t, seams.raw_bytes(o.buf), o.off, o.bufid)
            return end - o.off
        except DecodeError:
            return 0

    def op_drop_handle(self):
        o = self.get_obj(self.op["obj"])
        if self.w.schema[o.t]["k"] == "str":
            raise Skip()
        o.hnd = None
        self.res.probe("handle_dropped")

    def op_raw_alloc(self):
        w, op = self.w, self.op
        if op["buf"] >= len(w.bufs):
            raise Skip()
        buf = w.bufs[op["buf"]]
        try:
            off = buf.allocate(op["size"], align=op["align"])
        except Exception as e:
            # a growable buffer honours every request (alloc_fail is injected elsewhere, never here)
            self.viol("C04", "valid_allocation_raised", ["raw_alloc", exc_sig(e)], f"allocate({op['size']}, align={op['align']}): {type(e).__name__}: {e}")
            return
        data = pbytes(op["fill"], op["size"])
        buf.update_from_buffer(off, data)
        w.regions.append([buf, off, op["size"]])
        self.allowed.append((buf, off, off + op["size"]))
        self.res.fault("fragment")

    def op_raw_free(self):
        w, op = self.w, self.op
        if op["region"] >= len(w.regions) or w.regions[op["region"]] is None:
            raise Skip()
        buf, off, size = w.regions[op["region"]]
        if op.get("scribble") is not None:
            buf.update_from_buffer(off, pbytes(op["scribble"], size))
            self.res.fault("dirty_reuse")
        self.allowed.append((buf, off, off + size))
        try:
            buf.free(off, size)
        except Exception as e:
            self.viol("C12", "valid_free_raised", ["raw_free", exc_sig(e)], f"free({off}, {size}): {type(e).__name__}: {e}")
            return
        w.regions[op["region"]] = None

    def op_kill(self):
        w, op = self.w, self.op
        o = self.get_obj(op["obj"])
        alloc = [(off, size) for off, size in o.buf._sim_allocs if off == o.off]
        if len(alloc) != 1 or alloc[0][1] <= 0 or alloc[0][1] < self._extent(o):
            raise Skip()  # zero-size neighbours can share an offset: only an unambiguous allocation is freed
        # never pull storage from under a live reference: nothing inside this object may be the
        # target of a reference held by another live object
        inside = set()

        def collect(t, node):
            if isinstance(node, (M.StructNode, M.ArrayNode, M.StrNode)):
                inside.add(id(node))
            ty = w.schema[t]
            if ty["k"] == "struct":
                for f in ty["fields"]:
                    collect(f[1], node.f[f[0]])
            elif ty["k"] == "array" and w.schema[ty["item"]]["k"] != "sc":
                for x in node.items:
                    collect(ty["item"], x)

        collect(o.t, o.node)
        for x in w.live_objs():
            if x is o:
                continue
            for p, t, n in M.enum_paths(w.schema, x.t, x.node, maxn=400):
                if isinstance(n, (M.RefLeaf, M.URefLeaf)) and n.to is not None and id(n.to) in inside:
                    raise Skip()
        off, size = alloc[0]
        if size > 0:
            o.buf.update_from_buffer(off, pbytes(op["scribble"], size))
        self.allowed.append((o.buf, off, off + size))
        o.buf.free(off, size)
        o.alive = False
        self.res.fault("kill_source")
        if any(x.copy_of == o.k for x in w.live_objs()):
            self.res.probe("source_of_a_live_copy_freed_and_scribbled")

    def op_grow(self):
        w, op = self.w, self.op
        if op["buf"] >= len(w.bufs):
            raise Skip()
        buf = w.bufs[op["buf"]]
        try:
            buf.grow(op["n"])
        except Exception as e:
            self.outcome = "raised:" + exc_sig(e)
            self.viol("C20" if getattr(buf, "_sim_restored", False) else "C04", "valid_grow_raised", ["grow", exc_sig(e)], f"grow({op['n']}): {type(e).__name__}: {e}")
            return
        self.res.fault("grow")

    def op_grow_until(self):
        w, op = self.w, self.op
        if op["buf"] >= len(w.bufs):
            raise Skip()
        buf = w.bufs[op["buf"]]
        cap0 = buf.capacity
        n = 0
        while buf.capacity == cap0 and n < 200:
            sz = max(8, cap0 // 4)
            try:
                off = buf.allocate(sz)
            except Exception as e:
                self.viol("C20" if getattr(buf, "_sim_restored", False) else "C04", "valid_allocation_raised", ["grow_until", exc_sig(e)], f"allocate({sz}): {type(e).__name__}: {e}")
                return
            w.regions.append([buf, off, sz])
            n += 1
        self.res.fault("grow_until")

    def op_restart(self):
        from . import objrestart

        objrestart.run(self)

    def op_json_rebuild(self):
        w = self.w
        o = self.get_obj(self.op["obj"])
        if not _jsonable(w.schema, o.t):
            raise Skip()
        cls = w.classes[o.t]
        try:
            js = o.handle()._to_json()
            hnd = cls(js, _buffer=o.buf)
        except Exception as e:
            self.outcome = "raised:" + exc_sig(e)
            self.viol("C19", "json_rebuild_raised", ["json_rebuild", exc_sig(e), typegen.features(w.schema, o.t)], f"{type(e).__name__}: {e}")
            return
        node = M.copy_node(w.schema, o.t, o.node, True)
        n2 = self.register(o.t, node, hnd)
        self.check_obj(n2, "C19", what="json_rebuild_not_equal")

    def op_misuse(self):
        from . import objmisuse

        objmisuse.run(self)

    # -- reading / comparing ---------------------------------------------------------------
    def check_obj(self, o, prop, nplike=False, what="handle_ne_model"):
        """Value read through the kept handle must equal the model."""
        w = self.w
        try:
            got = read_handle(w, o.t, o.handle(), nplike)
        except Exception as e:
            self.viol(prop, what + "_read_raised", [self.kind, exc_sig(e), typegen.features(w.schema, o.t)] + ([_form(self.op["value"])] if "value" in self.op and self.kind == "construct" else []), f"{type(e).__name__}: {e}")
            return None
        M.adopt_locs(None, got, w.schema, o.t, o.node)
        want = M.snapshot(w.schema, o.t, o.node)
        if not M.same(want, got):
            d = M.first_diff(want, got)
            self.viol(prop, what, [self.kind, typegen.features(w.schema, o.t), "xref" if M.crosses_ref(d) else "direct"] + ([_form(self.op["value"])] if "value" in self.op and self.kind == "construct" else []), f"object {o.k} {d}; op {str(self.op)[:300]}")
            return None
        return got

    # -- oracle 4: global coherence -----------------------------------------------------
    def oracle_coherence(self):
        w = self.w
        kind = self.kind
        raws = None
        step_prop = STEP_PROP
        for o in w.live_objs():
            if self.viols:
                break
            # 4a: kept handle / default handle vs model
            try:
                # to_nplike / to_nparray are re-checked against item access on every step for the
                # lenses about construction read-back and restart (a bulk view can go stale on its own)
                got = read_handle(w, o.t, o.handle(), self.lens in ("C01", "C20"))
                M.adopt_locs(None, got, w.schema, o.t, o.node)
            except Exception as e:
                prop = step_prop.get(kind, "C10")
                if getattr(o.buf, "_sim_restored", False):
                    prop = "C20"
                if o.hnd is not None and w.schema[o.t]["k"] != "str":
                    try:
                        gotv = read_handle(w, o.t, o.view())
                        if M.same(M.snapshot(w.schema, o.t, o.node), gotv):
                            # (a dressed object whose attributes stop reflecting its buffer during a
                            # hybrid operation is C18's own subject)
                            self.viol("C20" if getattr(o.buf, "_sim_restored", False) else "C18" if kind.startswith("h_") and getattr(o, "dressed", None) is not None else "C06", "kept_handle_stale_view_agrees_with_model", [kind, "written_through_" + str(self.op.get("via", "-")), typegen.features(w.schema, o.t), "nested" if self.op.get("path") else "whole"], f"object {o.k}: reading the kept handle raised {type(e).__name__}: {e} (model == rebuilt view); after {str(self.op)[:300]}")
                            continue
                    except Exception:
                        pass
                self.viol(prop, "handle_read_raised", [kind, exc_sig(e), typegen.features(w.schema, o.t)], f"object {o.k}: {type(e).__name__}: {e}")
                continue
            want = M.snapshot(w.schema, o.t, o.node)
            if not M.same(want, got) and o.hnd is not None and w.schema[o.t]["k"] != "str":
                # is it the kept handle that went stale while the bytes are right?  A view rebuilt from
                # (buffer, offset) that agrees with the model says so: that is C06's business
                try:
                    gotv = read_handle(w, o.t, o.view())
                except Exception:
                    gotv = None
                if gotv is not None and M.same(want, gotv):
                    # (a bulk view — to_nplike / to_nparray — that disagrees with item access on the same
                    # handle is re-checked only under the construction and restart lenses: theirs)
                    sprop = "C20" if getattr(o.buf, "_sim_restored", False) else self.lens if self.lens in ("C01", "C20") and "badnplike" in repr(got) else "C06"
                    self.viol(sprop, "kept_handle_stale_view_agrees_with_model", [kind, "written_through_" + str(self.op.get("via", "-")), typegen.features(w.schema, o.t), "nested" if self.op.get("path") else "whole"], f"object {o.k}: {M.first_diff(want, got)} (model == rebuilt view, kept handle differs); after {str(self.op)[:300]}")
                    continue
            if not M.same(want, got):
                d = M.first_diff(want, got)
                xref = M.crosses_ref(d) or (d is not None and "ref target location" in d)
                if kind in step_prop:
                    prop = step_prop[kind]
                elif xref:
                    prop = "C08"
                else:
                    prop = "C10"
                if getattr(o.buf, "_sim_restored", False):
                    prop = "C20"  # an unpickled object must stay usable: whatever goes wrong in a restored buffer is C20's
                self.viol(prop, "handle_ne_model", [kind, typegen.features(w.schema, o.t), "xref" if xref else "direct"] + ([self.tag] if getattr(self, "tag", None) else []), f"object {o.k}: {d}; after {str(self.op)[:300]}")
                continue
            # 4b: freshly rebuilt view vs handle (C06, never consults the model)
            if w.schema[o.t]["k"] != "str":
                try:
                    v = o.view()
                    gotv = read_handle(w, o.t, v)
                    if gotv != got:
                        self.viol("C06", "view_ne_handle", [kind, typegen.features(w.schema, o.t)], f"object {o.k}: {M.first_diff(got, gotv)}")
                    elif o.hnd is not None:
                        m1, m2 = [], []
                        handle_meta(w, o.t, o.hnd, m1)
                        handle_meta(w, o.t, v, m2)
                        if m1 != m2:
                            df = [(a, b) for a, b in zip(m1, m2) if a != b][:1]
                            self.viol("C06", "view_meta_ne_handle", [kind, typegen.features(w.schema, o.t)], f"object {o.k}: {df}")
                except Exception as e:
                    self.viol("C06", "view_read_raised", [kind, exc_sig(e), typegen.features(w.schema, o.t)], f"object {o.k}: {type(e).__name__}: {e}")
            # 4c: independent decoder vs model (C05) — only where the library's own reading equals the model
            if raws is None:
                raws = w.bytes_of()
            try:
                lay = []
                snap, end = w.dec.decode(o.t, raws[w.bufs.index(o.buf)], o.off, o.bufid, lay, None, (), True)
                # string capacities are observed, not predicted
                for pth, s0, e0, kd in lay:
                    if kd == "str":
                        try:
                            _, sn, _, _ = M.node_at(w.schema, o.t, o.node, [list(x) if isinstance(x, tuple) else x for x in pth])
                            if isinstance(sn, M.StrNode):
                                sn.cap = e0 - s0 - 8
                        except Exception:
                            pass
                if not M.same(want, snap):
                    self.viol("C05", "decoder_ne_model", [kind, typegen.features(w.schema, o.t)], f"object {o.k}: {M.first_diff(want, snap)}")
            except DecodeError as e:
                self.viol("C05", "layout_rule_broken", [e.rule, typegen.features(w.schema, o.t)], f"object {o.k} at {o.off}: {e}")
            # 4d: references resolve to live objects inside their own buffer
            self.check_refs(o, got)
        # layout maps unchanged by in-place operations (sizes, shapes, capacities)
        if self.pre_layout is not None and not self.viols:
            post = self.layouts()
            for k, lay in self.pre_layout.items():
                if lay is not None and post.get(k) is not None and post[k] != lay:
                    a = [x for x in lay if x not in post[k]][:2]
                    b = [x for x in post[k] if x not in lay][:2]
                    prop = LAYOUT_PROP.get(kind, "C10")
                    self.viol(prop, "layout_of_existing_object_changed", [kind, self.feat()], f"object {k}: before {a} after {b}")
                    break

    def check_refs(self, o, snap):
        w = self.w

        def rec(s):
            if type(s) is not tuple:
                if isinstance(s, list):
                    for x in s:
                        rec(x)
                return
            if s and s[0] in ("ref", "uref"):
                loc = s[1] if s[0] == "ref" else s[2]
                bid, off = loc
                if bid != o.bufid:
                    self.viol("C08", "reference_leaves_its_buffer", [self.kind], f"object {o.k} in buffer {o.bufid} refers to {loc}")
                    return
                # (a zero-size part may legitimately sit exactly at the end of its parent's allocation)
                if not any(o2 <= off <= o2 + s2 for o2, s2 in o.buf._sim_allocs):
                    self.viol("C08" if self.kind not in ("copy",) else "C09", "reference_target_not_in_live_allocation", [self.kind], f"object {o.k}: target at {off}, live {sorted(o.buf._sim_allocs)[:8]}")
                    return
                rec(s[-1])
            elif s and s[0] == "st":
                for _, x in s[1]:
                    rec(x)
            elif s and s[0] == "ar":
                for x in s[2]:
                    rec(x)

        rec(snap)


ObjSim.world_cls = ObjWorld
ObjSim.step_cls = Step
ObjSim.source_cls = GenSource


def _form(v):
    if v is None:
        return "none"
    if isinstance(v, dict):
        for k in ("obj", "nd", "dims", "cap", "l", "d", "s", "x", "part"):
            if k in v:
                if k == "nd":
                    return "nd:" + v["nd"]["layout"]
                return k
    return "?"


def _placek(p):
    if p == "default_ctx":
        return "defctx"
    if "ctx" in p:
        return "ctx"
    return p["how"]


def _same_caps(schema, t, node, vnode):
    """String capacities equal everywhere (a byte copy of equal-size values carries the source's
    capacities; equal capacities make both paths of the library agree with the in-place model)."""
    ty = schema[t]
    k = ty["k"]
    if k == "str":
        return node.cap is not None and node.cap == vnode.cap
    if k == "struct":
        return all(_same_caps(schema, f[1], node.f[f[0]], vnode.f[f[0]]) for f in ty["fields"])
    if k == "array":
        if schema[ty["item"]]["k"] == "sc":
            return True
        return len(node.items) == len(vnode.items) and all(_same_caps(schema, ty["item"], a, b) for a, b in zip(node.items, vnode.items))
    return True


def _shape_compatible(schema, t, node, vnode):
    ty = schema[t]
    k = ty["k"]
    if k == "sc":
        return True
    if k == "str":
        return node.cap is None or len(vnode.text.encode()) + 1 <= node.cap
    if k == "struct":
        return all(_shape_compatible(schema, f[1], node.f[f[0]], vnode.f[f[0]]) for f in ty["fields"] if f[0] in vnode.f)
    if k == "array":
        if node.shape != vnode.shape:
            return False
        return all(_shape_compatible(schema, ty["item"], a, b) for a, b in zip(node.items, vnode.items))
    return True
