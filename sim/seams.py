"""Seams the simulator owns.  No source hook in /repo is needed: every seam
is an overridable method, a constructor argument or a module attribute.

SimBufferNumpy / SimBufferByteArray run the real XBuffer / BufferNumpy /
BufferByteArray code for everything; the overrides only count, log, fail on
plan (`_new_buffer`) and inject a relocation (`grow`) before a planned subset
of top-level `allocate` calls.
"""
from .core import setup_repo_path

setup_repo_path()

import xobjects as xo  # noqa: E402
from xobjects.context_cpu import BufferNumpy, BufferByteArray, ContextCpu  # noqa: E402


class BufCtl:
    """Per-buffer control block (picklable)."""

    def __init__(self, bid=0):
        self.bid = bid
        self.depth = 0  # allocate re-enters itself after growing
        self.alloc_ordinal = 0  # top-level allocate calls so far
        self.newbuf_calls = 0
        self.fail_newbuf_at = set()  # ordinals of _new_buffer calls that raise MemoryError
        self.relocate_at = {}  # alloc ordinal -> grow amount
        self.log = []  # (kind, ...) allocator calls since last drain
        self.fired = {}  # fault kind -> count
        self.armed = False  # log/inject only while the simulator says so

    def drain(self):
        out, self.log = self.log, []
        return out

    def fire(self, kind):
        self.fired[kind] = self.fired.get(kind, 0) + 1


class _SimMixin:
    def __init__(self, ctl=None, **kw):
        self._ctl = ctl if ctl is not None else BufCtl()
        super().__init__(**kw)

    def _new_buffer(self, capacity):
        ctl = self._ctl
        ctl.newbuf_calls += 1
        if ctl.newbuf_calls in ctl.fail_newbuf_at:
            ctl.fire("alloc_fail")
            raise MemoryError(f"simulated: cannot allocate {capacity} bytes")
        return super()._new_buffer(capacity)

    def allocate(self, size, align=True):
        ctl = self._ctl
        top = ctl.depth == 0
        if top and ctl.armed:
            ctl.alloc_ordinal += 1
            k = ctl.relocate_at.get(ctl.alloc_ordinal)
            if k is not None:
                ctl.fire("relocate")
                self.grow(k)
        ctl.depth += 1
        try:
            off = super().allocate(size, align=align)
        finally:
            ctl.depth -= 1
        if top and ctl.armed:
            ctl.log.append(("alloc", int(size), bool(align), int(off), int(self.capacity)))
        return off

    def grow(self, capacity):
        ctl = self._ctl
        old = self.capacity
        super().grow(capacity)
        if ctl.armed:
            ctl.log.append(("grow", int(capacity), int(old), int(self.capacity)))

    def free(self, offset, size):
        super().free(offset, size)
        if self._ctl.armed:
            self._ctl.log.append(("free", int(offset), int(size)))


class SimBufferNumpy(_SimMixin, BufferNumpy):
    kind = "numpy"


class SimBufferByteArray(_SimMixin, BufferByteArray):
    kind = "bytearray"


class SimContext(ContextCpu):
    """ContextCpu whose new_buffer hands out Sim buffers with planned
    alignment / grow step."""

    def __init__(self, omp_num_threads=0, plan=None):
        super().__init__(omp_num_threads=omp_num_threads)
        self._sim_plan = plan or {}
        self._sim_made = []

    def _make_buffer(self, capacity):
        p = self._sim_plan
        cls = SimBufferByteArray if p.get("kind") == "bytearray" else SimBufferNumpy
        ctl = BufCtl(bid=p.get("next_bid", 1000) + len(self._sim_made))
        buf = cls(
            ctl=ctl,
            capacity=capacity,
            context=self,
            default_alignment=p.get("align"),
            grow_step=p.get("grow_step"),
        )
        hook = p.get("on_new")
        if hook is not None:
            hook(buf)
        self._sim_made.append(buf)
        return buf

    def __getstate__(self):
        st = super().__getstate__()
        st["_sim_made"] = []
        st["_sim_plan"] = {k: v for k, v in st.get("_sim_plan", {}).items() if k != "on_new"}
        return st


def make_buffer(kind, ctx, capacity, align, grow_step, bid):
    cls = SimBufferByteArray if kind == "bytearray" else SimBufferNumpy
    return cls(ctl=BufCtl(bid), capacity=capacity, context=ctx, default_alignment=align, grow_step=grow_step)


def raw_bytes(buf):
    """Whole storage as bytes (observation only)."""
    return bytes(buf.buffer) if not hasattr(buf.buffer, "tobytes") else buf.buffer.tobytes()


def fresh_native(buf, n):
    """Fresh native storage of the buffer's kind, not counted and never failed."""
    return super(_SimMixin, buf)._new_buffer(n)
