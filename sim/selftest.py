"""Self-tests the machinery runs on itself: determinism and sensitivity."""
import os
import sys
import json
import glob
import shutil
import tempfile
import subprocess

from . import core, driver
from .core import VERIF_DIR

CHECK = os.path.join(VERIF_DIR, "check.py")


def cmd_digests(prop, seed, n, tier="quick"):
    """Print {index: digest} for the first n runs (used by determinism())."""
    workers = int(os.environ.get("VERIF_WORKERS", 4))
    out = {}

    def fn(i):
        d = driver.one_run(prop, seed, i, tier)
        return {"i": i, "digest": d["digest"], "steps": d["steps"], "nv": len(d["all_viol"])}

    import time

    for d in core.pool_run(fn, range(n), workers, max(1, n // (workers * 2)), time.time() + 3600, per_run_timeout=120):
        out[str(d["i"])] = [d.get("digest"), d.get("steps"), d.get("nv"), d.get("error")]
    print("DIGESTS " + json.dumps(out, sort_keys=True))
    return 0


def determinism(args):
    props = [a for a in args if a in driver.PROPS] or sorted(driver.PROPS)
    n = int(os.environ.get("VERIF_DET_RUNS", 200))
    seed = os.environ.get("VERIF_SEED", "0")
    bad = 0
    for prop in props:
        results = []
        configs = [("0", "16"), ("0", "3"), ("12345", "16"), ("0", "16")]
        if prop == "C19":
            # HybridClass.to_dict iterates a *set* of field names: the order in which it copies nested
            # parts (hence the order in which buffers come into being) follows the string hash. The
            # checks pin PYTHONHASHSEED=0 (check.py re-executes itself), which is the seam that owns
            # this order; across hash seeds the digests of C19 runs legitimately differ.
            configs = [("0", "16"), ("0", "3"), ("0", "5"), ("0", "16")]
        for hs, wk in configs:
            env = dict(os.environ, VERIF_HASHSEED=hs, VERIF_WORKERS=wk, VERIF_SEED=seed)
            env.pop("PYTHONHASHSEED", None)
            p = subprocess.run([sys.executable, CHECK, prop, "--digests", str(n)], capture_output=True, text=True, env=env, cwd=VERIF_DIR, timeout=3600)
            line = [l for l in p.stdout.splitlines() if l.startswith("DIGESTS ")]
            if not line:
                print(f"[determinism] {prop}: no digests (exit {p.returncode}) {p.stderr[-500:]}")
                bad += 1
                break
            results.append(json.loads(line[0][8:]))
        else:
            ref = results[0]
            diffs = set()
            for r in results[1:]:
                for k in ref:
                    if r.get(k) != ref[k]:
                        diffs.add(k)
            errs = [k for k, v in ref.items() if v[3]]
            print(f"[determinism] {prop}: {len(ref)} runs x {len(configs)} executions (PYTHONHASHSEED/workers: {", ".join(h + "/" + wk for h, wk in configs)}): {len(diffs)} diverging runs, {len(errs)} harness errors")
            if diffs or errs:
                bad += 1
                print("   diverging run indices:", sorted(diffs, key=int)[:20], "errors:", errs[:5])
    return 1 if bad else 0


def _scratch_repo(patch):
    d = tempfile.mkdtemp(prefix="xo_mut_", dir=os.environ.get("VERIF_SCRATCH", "/tmp"))
    shutil.copytree(os.path.join(core.REPO, "xobjects"), os.path.join(d, "xobjects"), ignore=shutil.ignore_patterns("__pycache__"))
    p = subprocess.run(["patch", "-p1", "-s", "-d", d, "-i", patch], capture_output=True, text=True)
    if p.returncode != 0:
        shutil.rmtree(d, ignore_errors=True)
        raise RuntimeError(f"patch {patch} does not apply: {p.stdout} {p.stderr}")
    return d


def mutants(args):
    """Apply each selftest/mutants/*.patch (and seeded/*/patch.diff) to a scratch
    copy; the owner's check must exit 1, the 'quiet' properties must exit 0."""
    metas = []
    for mp in sorted(glob.glob(os.path.join(VERIF_DIR, "selftest", "mutants", "*.json"))) + sorted(glob.glob(os.path.join(VERIF_DIR, "seeded", "*", "meta.json"))):
        m = json.load(open(mp))
        m["_dir"] = os.path.dirname(mp)
        m["_name"] = os.path.basename(mp)[:-5] if "selftest" in mp else os.path.basename(os.path.dirname(mp))
        metas.append(m)
    if args:
        metas = [m for m in metas if any(a in m["_name"] for a in args)]
    bad = 0
    runs_env = os.environ.get("VERIF_MUT_RUNS")
    for m in metas:
        patch = os.path.join(m["_dir"], m.get("patch", m["_name"] + ".patch" if "selftest" in m["_dir"] else "patch.diff"))
        try:
            d = _scratch_repo(patch)
        except Exception as e:
            print(f"[mutant] {m['_name']}: SKIP ({e})")
            bad += 1
            continue
        try:
            tmpout = tempfile.mkdtemp(prefix="xo_mutout_", dir=os.environ.get("VERIF_SCRATCH", "/tmp"))
            caught_by = []
            plan = [(m["property"], 1)] + [(q, 1) for q in m.get("any_of", []) if q != m["property"]] + [(q, 0) for q in m.get("quiet", [])]
            for prop, want in plan:
                if prop not in driver.PROPS:
                    print(f"[mutant] {m['_name']}: {prop} not built yet")
                    continue
                env = dict(os.environ, VERIF_REPO=d, VERIF_REPLAY_DIR=os.path.join(tmpout, "replays"), VERIF_EVIDENCE_DIR=os.path.join(tmpout, "evidence"), VERIF_MAX_REPORTS="1")
                cmd = [sys.executable, CHECK, prop, "--tier", "quick"]
                if runs_env:
                    cmd += ["--runs", runs_env]
                elif os.environ.get("VERIF_MUT_FRACTION"):
                    # a first pass over a fraction of the quick run indices (what it catches, the full check
                    # catches too); what it misses is re-run in full
                    cmd += ["--runs", str(max(50, int(driver.PROPS[prop]["quick_runs"] * float(os.environ["VERIF_MUT_FRACTION"]))))]
                p = subprocess.run(cmd, capture_output=True, text=True, env=env, cwd=VERIF_DIR, timeout=1800)
                first = [l for l in p.stdout.splitlines() if l.startswith("  seed=")]
                ok = p.returncode == want
                if want == 1 and m.get("any_of"):
                    # the change is attributed by the oracles to whichever property it breaks first;
                    # it counts as caught when at least one of the listed lenses reports it
                    if p.returncode == 1:
                        caught_by.append(prop)
                    print(f"[mutant] {m['_name']}: {prop} exit {p.returncode} ({'caught' if p.returncode == 1 else 'quiet'}) {first[0].strip()[:160] if first else ''}")
                    if p.returncode == 2:
                        bad += 1
                        print(p.stderr[-800:])
                    continue
                print(f"[mutant] {m['_name']}: {prop} exit {p.returncode} (want {want}) {'OK' if ok else 'MISSED' if want else 'FALSE-ALARM'} {first[0].strip()[:160] if first else ''}" + (f" [documented blind spot: {m['blind_spot'][:120]}]" if not ok and want and m.get("blind_spot") and p.returncode == 0 else ""))
                if not ok and not (want and m.get("blind_spot") and p.returncode == 0):
                    bad += 1
                    if p.returncode == 2:
                        print(p.stderr[-800:])
            if m.get("any_of"):
                ok = bool(caught_by)
                print(f"[mutant] {m['_name']}: any of {[m['property']] + [q for q in m['any_of'] if q != m['property']]} -> caught by {caught_by} {'OK' if ok else 'MISSED'}")
                if not ok:
                    bad += 1
        finally:
            shutil.rmtree(d, ignore_errors=True)
            shutil.rmtree(tmpout, ignore_errors=True)
    print(f"[mutant] {len(metas)} mutants, {bad} problems")
    return 1 if bad else 0
