"""Seeded generator of type schemas over the grammar of the properties, and
construction of the real xobjects classes from a schema (through the public
declaration forms the tests use).

Schema = list of type ASTs in dependency order; a typeref is an index.
  {"k":"sc","t":"Float64"} | {"k":"str"}
  {"k":"struct","name":N,"fields":[[fname,typeref,{"default":v}?]...]}
  {"k":"array","name":N,"item":typeref,"shape":[int|None..],"order":[..],"decl":"sugar"|"class","order_decl":"C"|"F"|None}
  {"k":"ref","to":typeref} | {"k":"uref","name":N,"members":[typeref..]}
"""
import itertools

SCALARS = ["Float64", "Float32", "Int64", "UInt64", "Int32", "UInt32", "Int16", "UInt16", "Int8", "UInt8"]
SC_DTYPE = {s: s.lower() for s in SCALARS}
SC_SIZE = {"Float64": 8, "Float32": 4, "Int64": 8, "UInt64": 8, "Int32": 4, "UInt32": 4, "Int16": 2, "UInt16": 2, "Int8": 1, "UInt8": 1}
_LETTERS = "NMOPQRSTUVWXYZABCDEFGHIJKLM"


def sugar_suffix(shape):
    out = []
    il = 0
    for d in shape:
        if d is None:
            out.append(_LETTERS[il])
            il = (il + 1) % len(_LETTERS)
        else:
            out.append(str(d))
    return "x".join(out)


# ------------------------------------------------------------------------------
# static analysis of a schema (independent of xobjects)


def is_dynamic(schema, t):
    ty = schema[t]
    k = ty["k"]
    if k in ("sc", "ref", "uref"):
        return False
    if k == "str":
        return True
    if k == "struct":
        return any(is_dynamic(schema, f[1]) for f in ty["fields"])
    if k == "array":
        return any(d is None for d in ty["shape"]) or is_dynamic(schema, ty["item"])
    raise ValueError(k)


def has_refs(schema, t):
    ty = schema[t]
    k = ty["k"]
    if k in ("ref", "uref"):
        return True
    if k == "struct":
        return any(has_refs(schema, f[1]) for f in ty["fields"])
    if k == "array":
        return has_refs(schema, ty["item"])
    return False


def depth(schema, t):
    ty = schema[t]
    k = ty["k"]
    if k in ("sc", "str"):
        return 0
    if k == "struct":
        return 1 + max([depth(schema, f[1]) for f in ty["fields"]] or [0])
    if k == "array":
        return 1 + depth(schema, ty["item"])
    if k == "ref":
        return 1 + depth(schema, ty["to"])
    if k == "uref":
        return 1 + max(depth(schema, m) for m in ty["members"])
    raise ValueError(k)


def type_name(schema, t):
    ty = schema[t]
    k = ty["k"]
    if k == "sc":
        return ty["t"].lower().capitalize()  # xobjects names scalars dtype.capitalize(): "Uint16"
    if k == "str":
        return "String"
    if k == "ref":
        return "Ref" + type_name(schema, ty["to"])
    return ty["name"]


HOSTILE_FIELDS = ["only_for_context", "cuda", "opencl", "cpu_serial", "cpu_openmp", "vectorize_over", "end_vectorize", "include_file", "for_context", "gpukern", "gpufun", "gpuglmem"]
SHORT_NAMES = ["d", "f", "i", "u", "c", "v", "s", "e", "in", "un", "ch", "vo", "st", "fl", "lo", "sh", "si", "ui", "dou", "flo", "cha", "Rf", "RF", "rf"]


def leaf_count(schema, t, dyn=2):
    """Rough number of leaves of a value of type t (dynamic dims counted as `dyn`)."""
    ty = schema[t]
    k = ty["k"]
    if k in ("sc", "str"):
        return 1
    if k == "struct":
        return sum(leaf_count(schema, f[1], dyn) for f in ty["fields"]) or 1
    if k == "array":
        n = 1
        for d in ty["shape"]:
            n *= dyn if d is None else d
        return max(1, n) * leaf_count(schema, ty["item"], dyn)
    if k == "ref":
        return leaf_count(schema, ty["to"], dyn)
    if k == "uref":
        return max(leaf_count(schema, m, dyn) for m in ty["members"])


def features(schema, t):
    """Canonical feature class of a type (for the distinct-state measure)."""
    ty = schema[t]
    k = ty["k"]
    if k == "sc":
        return "sc"
    if k == "str":
        return "str"
    if k == "struct":
        nd = sum(1 for f in ty["fields"] if is_dynamic(schema, f[1]))
        return f"st(d{min(nd,2)}{'r' if has_refs(schema,t) else ''})"
    if k == "array":
        nd = len(ty["shape"])
        dyn = any(d is None for d in ty["shape"])
        corder = list(ty["order"]) == list(range(nd))
        return f"ar({nd}{'D' if dyn else 'S'}{'c' if corder else 'p'}{'i' if is_dynamic(schema, ty['item']) else 's'}:{features(schema, ty['item'])[:2]})"
    if k == "ref":
        return "ref"
    return "uref"


# ------------------------------------------------------------------------------
# generation


def gen_schema(rng, sw):
    """sw: swarm switches (dict of feature -> bool/number)."""
    schema = []
    names = set()
    idx_sc = []
    nsc = rng.choice([1, 2, 3, 4])
    for s in rng.sample(SCALARS, nsc):
        schema.append({"k": "sc", "t": s})
        idx_sc.append(len(schema) - 1)
    idx_str = None
    if sw.get("strings"):
        schema.append({"k": "str"})
        idx_str = len(schema) - 1
    counter = itertools.count()
    n_compound = rng.randint(sw.get("min_types", 3), sw.get("max_types", 8))
    max_depth = sw.get("max_depth", 4)

    def candidates(pred, maxd):
        return [i for i in range(len(schema)) if pred(schema[i]) and depth(schema, i) <= maxd]

    def any_type(maxd, allow_ref=True):
        pool = candidates(lambda ty: allow_ref or ty["k"] not in ("ref", "uref"), maxd)
        # bias toward recently created compound types
        comp = [i for i in pool if schema[i]["k"] not in ("sc", "str")]
        if comp and rng.random() < 0.55:
            return rng.choice(comp[-4:])
        return rng.choice(pool)

    for _ in range(n_compound):
        kinds = ["struct"] * 4 + ["array"] * 4
        targets = [i for i in range(len(schema)) if schema[i]["k"] in ("struct", "array") and depth(schema, i) < max_depth]
        # classes that share their name with another class are never referred to (references and unions
        # identify types by name: known finding C08-same-name-twin-aliased)
        dup = {ty.get("name") for ty in schema if ty["k"] == "array" and sum(1 for x in schema if x.get("name") == ty.get("name")) > 1}
        targets = [i for i in targets if schema[i].get("name") not in dup]
        if sw.get("refs") and targets:
            kinds += ["ref"] * 2
        if sw.get("urefs") and targets:
            kinds += ["uref"] * 2
        kind = rng.choice(kinds)
        if kind == "struct":
            nf = rng.choice([1, 2, 2, 3, 3, 4, 5]) if not (sw.get("fieldless") and rng.random() < 0.08) else 0
            fields = []
            for j in range(nf):
                ft = any_type(max_depth - 1)
                if not sw.get("dyn_struct") and is_dynamic(schema, ft):
                    ft = rng.choice(idx_sc)
                f = [f"f{j}", ft]
                if sw.get("hostile_fields") and rng.random() < 0.5:
                    # field names from the vocabulary of the source specialiser (field names end up in
                    # the names, and possibly the comments, of generated code)
                    free = [x for x in HOSTILE_FIELDS if x not in [g[0] for g in fields]]
                    if free:
                        f[0] = rng.choice(free)
                if schema[ft]["k"] == "sc" and sw.get("defaults") and rng.random() < 0.3:
                    f.append({"default": _small_scalar(rng, schema[ft]["t"])})
                fields.append(f)
            name = f"S{next(counter)}"
            if sw.get("short_names") and rng.random() < 0.6:
                # legal but hostile class names: short lower-case words that begin the names of C types
                # (anything that treats class names as patterns in the generated text meets them here)
                free = [x for x in SHORT_NAMES if x not in names]
                if free:
                    name = rng.choice(free)
            schema.append({"k": "struct", "name": name, "fields": fields, "decl": rng.choice(["class", "type()"])})
            names.add(name)
        elif kind == "array":
            item = any_type(max_depth - 1)
            if not sw.get("dyn_items") and is_dynamic(schema, item):
                item = rng.choice(idx_sc)
            nd = rng.choice([1, 1, 1, 2, 2, 3]) if sw.get("nd") else 1
            cyc = False
            if sw.get("cyc3") and rng.random() < 0.5:
                # 3-D with an axis order that is not its own inverse, items of dynamic
                # size where the schema has any: the corner in which a permutation and
                # its inverse differ (everything 1-D/2-D/C/F hides a mix-up of the two)
                nd, cyc = 3, True
                dyn = [i for i in range(len(schema)) if schema[i]["k"] in ("str", "struct", "array") and is_dynamic(schema, i) and depth(schema, i) <= max_depth - 1]
                if dyn and sw.get("dyn_items") and rng.random() < 0.7:
                    item = rng.choice(dyn)
            shape = []
            for _d in range(nd):
                if sw.get("dyn_shape") and rng.random() < 0.45:
                    shape.append(None)
                elif sw.get("zero_static") and schema[item]["k"] == "sc" and rng.random() < 0.12:
                    shape.append(0)  # a static dimension of length 0 is a legal (empty) array type
                elif sw.get("big_dims") and schema[item]["k"] == "sc":
                    # arrays of numbers with hundreds of items (bulk code paths have thresholds in the item count)
                    shape.append(rng.choice([5, 6, 7, 8, 9]))
                else:
                    shape.append(rng.choice([1, 2, 2, 3, 4]))
            order = list(range(nd))
            order_decl = None
            if cyc:
                order = rng.choice([[1, 2, 0], [2, 0, 1]])
            elif nd > 1 and sw.get("orders") and rng.random() < 0.6:
                r = rng.random()
                if r < 0.3:
                    order = list(range(nd - 1, -1, -1))
                else:
                    rng.shuffle(order)
            decl = "sugar"
            sname = f"Arr{sugar_suffix(shape)}{type_name(schema, item)}"
            twin = bool(sw.get("name_twins")) and sname in names and nd > 1 and any(ty["k"] == "array" and ty["name"] == sname and ty["decl"] == "sugar" and ty["shape"] == shape and ty["item"] == item and list(ty["order"]) != list(order) for ty in schema)
            if twin:
                # a second array class with the same generated name: the name spells item type and
                # shape, not the axis order (Float64[2,3] and Float64[2:1,3:0] are both Arr2x3Float64)
                name = sname
            elif sname in names or (sw.get("class_arrays") and rng.random() < 0.35):
                decl = "class"
                name = f"A{next(counter)}"
                if order == list(range(nd)) and rng.random() < 0.5:
                    order_decl = "C"
                elif order == list(range(nd - 1, -1, -1)) and nd > 1 and rng.random() < 0.5:
                    order_decl = "F"
            else:
                name = sname
            names.add(name)
            arr = {"k": "array", "name": name, "item": item, "shape": shape, "order": order, "decl": decl, "order_decl": order_decl}
            if sw.get("np_dims") and (nd > 1 or decl == "class") and rng.random() < 0.5:
                arr["np_dims"] = True  # dimensions given as numpy integers
            schema.append(arr)
            if sw.get("name_twins") and decl == "sugar" and nd > 1 and rng.random() < 0.6 and _twin_free(schema, len(schema) - 1):
                o2 = list(reversed(order)) if rng.random() < 0.6 or nd == 2 else order[1:] + order[:1]
                if o2 != list(order):
                    schema.append(dict(arr, order=o2))
        elif kind == "ref":
            to = rng.choice(targets[-5:])
            if any(ty["k"] == "ref" and ty["to"] == to for ty in schema):
                continue
            schema.append({"k": "ref", "to": to})
        else:
            k = rng.choice([1, 2, 2, 3, 4])
            members = rng.sample(targets, min(k, len(targets)))
            name = f"U{next(counter)}"
            names.add(name)
            schema.append({"k": "uref", "name": name, "members": members})
    urefs_ = [i for i, ty in enumerate(schema) if ty["k"] == "uref"]
    cands_ = [i for i in range(len(schema)) if schema[i]["k"] in ("struct", "array") and depth(schema, i) < max_depth]
    if sw.get("urefs") and urefs_ and len(cands_) >= 2 and rng.random() < 0.5:
        # a second union over a different member list (same classes at other positions, some only
        # in one of the two), held by a struct: what one union learns must not leak into the other
        u1 = schema[urefs_[-1]]
        dup_ = {ty.get("name") for ty in schema if ty["k"] == "array" and sum(1 for x in schema if x.get("name") == ty.get("name")) > 1}
        pool = [c for c in cands_ if c not in u1["members"] and schema[c].get("name") not in dup_] + list(u1["members"])
        k2 = min(len(pool), rng.choice([1, 2, 3]))
        members = rng.sample(pool, k2)
        if members != list(u1["members"]):
            c = next(counter)
            schema.append({"k": "uref", "name": f"U{c}", "members": members})
            u2 = len(schema) - 1
            schema.append({"k": "struct", "name": f"S{next(counter)}", "fields": [["p", urefs_[-1]], ["q", u2], ["z", rng.choice(idx_sc)]], "decl": "class"})
    if sw.get("ref_chain"):
        # guaranteed reference chains: a referent that holds a reference itself, holders of both,
        # and an array of references (deep duplication / aliasing across levels)
        c = next(counter)
        sc = rng.choice(idx_sc)
        schema.append({"k": "struct", "name": f"L{c}", "fields": [["v", sc], ["w", rng.choice(idx_sc)]], "decl": "class"})
        leaf = len(schema) - 1
        schema.append({"k": "ref", "to": leaf})
        rl = len(schema) - 1
        mfields = [["a", sc], ["r", rl]]
        if sw.get("dyn_struct") and rng.random() < 0.6:
            # a dynamically sized struct that holds a reference (copied field by field, with offsets)
            dname = f"ArrN{type_name(schema, sc)}"
            dyn = [i for i, ty in enumerate(schema) if ty["k"] == "array" and ty["name"] == dname]
            if not dyn and dname not in names:
                names.add(dname)
                schema.insert(len(schema), {"k": "array", "name": dname, "item": sc, "shape": [None], "order": [0], "decl": "sugar", "order_decl": None})
                dyn = [len(schema) - 1]
            if dyn:
                mfields = [["d0", dyn[0]], ["a", sc], ["r", rl], ["d1", dyn[0]]] if rng.random() < 0.5 else [["a", sc], ["d0", dyn[0]], ["r", rl]]
                if idx_str is not None and rng.random() < 0.5:
                    mfields.insert(0, ["nm", idx_str])
        schema.append({"k": "struct", "name": f"M{c}", "fields": mfields, "decl": "class"})
        mid = len(schema) - 1
        if len(mfields) > 2 and sw.get("dyn_items") and rng.random() < 0.6:
            # an array whose items are of dynamic size AND hold a reference (item-wise copies only)
            shape = [rng.choice([None, 2, 3])]
            aname = f"Arr{sugar_suffix(shape)}M{c}"
            if aname not in names:
                names.add(aname)
                schema.append({"k": "array", "name": aname, "item": mid, "shape": shape, "order": [0], "decl": "sugar", "order_decl": None})
        schema.append({"k": "ref", "to": mid})
        rm = len(schema) - 1
        schema.append({"k": "struct", "name": f"T{c}", "fields": [["x", sc], ["m", rm], ["l", rl]], "decl": "class"})
        if rng.random() < 0.6:
            # the reference-holding struct nested by value (so that it is reached as a view)
            schema.append({"k": "struct", "name": f"W{c}", "fields": [["k", sc], ["n", mid], ["n2", mid]], "decl": "class"})
        if sw.get("long_refs") and rng.random() < 0.7:
            # a long array of references (thresholds of bulk code paths lie well above the usual 1..4 items)
            shape = [rng.choice([63, 64, 65, 70])]
            name = f"Arr{sugar_suffix(shape)}{type_name(schema, rl)}"
            if name not in names:
                names.add(name)
                schema.append({"k": "array", "name": name, "item": rl, "shape": shape, "order": [0], "decl": "sugar", "order_decl": None})
        if rng.random() < 0.5:
            shape = [rng.choice([None, 2, 3])]
            name = f"Arr{sugar_suffix(shape)}{type_name(schema, rm)}"
            if name not in names:
                names.add(name)
                schema.append({"k": "array", "name": name, "item": rm, "shape": shape, "order": [0], "decl": "sugar", "order_decl": None})
    if sw.get("union_nest") and sw.get("urefs"):
        # a union whose members include a struct and the type of that struct's first field: the whole
        # object and its first part start at the same address, only the member index tells them apart
        c = next(counter)
        sc = rng.choice(idx_sc)
        schema.append({"k": "struct", "name": f"IN{c}", "fields": [["a", sc], ["b", rng.choice(idx_sc)]], "decl": "class"})
        inner = len(schema) - 1
        schema.append({"k": "struct", "name": f"ON{c}", "fields": [["first", inner], ["z", rng.choice(idx_sc)]], "decl": "class"})
        outer = len(schema) - 1
        members = [outer, inner] if rng.random() < 0.5 else [inner, outer]
        schema.append({"k": "uref", "name": f"UN{c}", "members": members})
        un = len(schema) - 1
        schema.append({"k": "struct", "name": f"HN{c}", "fields": [["u", un], ["k", sc]], "decl": "class"})
    return schema


def _twin_free(schema, t):
    """No reference or union names type t yet (a same-named twin may then be added)."""
    return not any((ty["k"] == "ref" and ty["to"] == t) or (ty["k"] == "uref" and t in ty["members"]) for ty in schema)


def _small_scalar(rng, t):
    if t.startswith("Float"):
        return {"f": rng.choice([1.5, -2.25, 0.0, 3.0])}
    if t.startswith("U"):
        return {"i": str(rng.choice([0, 1, 7, 200]))}
    return {"i": str(rng.choice([0, 1, -1, 7, -100]))}


# ------------------------------------------------------------------------------
# real classes


def build_classes(schema, module=None, hybrids=None):
    """Create the xobjects classes for a schema.  Returns list aligned with schema.
    Structs marked "hybrid" are declared through xo.HybridClass (the list then
    holds their _XoStruct and `hybrids[index]` the dressing class)."""
    from . import seams

    xo = seams.xo
    out = []
    if hybrids is None:
        hybrids = {}
    for ty in schema:
        k = ty["k"]
        if k == "sc":
            cls = getattr(xo, ty["t"])
        elif k == "str":
            cls = xo.String
        elif k == "struct" and ty.get("hybrid"):
            data = {}
            for f in ty["fields"]:
                ft = hybrids.get(f[1], out[f[1]])  # nested hybrid fields are declared with the hybrid class
                if len(f) > 2 and "default" in f[2]:
                    d = f[2]["default"]
                    dv = float(d["f"]) if "f" in d else int(d["i"])
                    data[f[0]] = xo.Field(ft, default=dv)
                elif len(f) > 2 and "default_factory" in f[2]:
                    d = f[2]["default_factory"]
                    dv = float(d["f"]) if "f" in d else int(d["i"])
                    data[f[0]] = xo.Field(ft, default_factory=(lambda v=dv: v))
                else:
                    data[f[0]] = ft
            decl = {"_xofields": data}
            if ty.get("rename"):
                decl["_rename"] = dict(ty["rename"])
            H = type(ty["hname"], (hybrids[ty["hbase"]],) if ty.get("hbase") is not None else (xo.HybridClass,), decl)
            cls = H._XoStruct
            assert cls.__name__ == ty["name"], (cls.__name__, ty["name"])
            hybrids[len(out)] = H
            if module is not None:
                H.__module__ = module.__name__
                H.__qualname__ = H.__name__
                setattr(module, H.__name__, H)
        elif k == "struct":
            data = {}
            for f in ty["fields"]:
                ft = out[f[1]]
                if len(f) > 2 and "default" in f[2]:
                    d = f[2]["default"]
                    dv = float(d["f"]) if "f" in d else int(d["i"])
                    data[f[0]] = xo.Field(ft, default=dv)
                else:
                    data[f[0]] = ft
            cls = type(ty["name"], (xo.Struct,), data)
        elif k == "array":
            item = out[ty["item"]]
            import numpy as _np

            dims = [(_np.int64(d) if (d is not None and ty.get("np_dims")) else d) for d in ty["shape"]]
            if ty["decl"] == "sugar":
                spec = tuple(slice(d, o) for d, o in zip(dims, ty["order"]))
                nd = len(spec)
                if list(ty["order"]) == list(range(nd)):
                    spec = tuple(slice(d, None) if d is None else d for d in dims)
                if nd == 1:
                    spec = spec[0]
                cls = item[spec]
                assert cls.__name__ == ty["name"], (cls.__name__, ty["name"])
            else:
                data = {"_itemtype": item, "_shape": tuple(dims)}
                if ty.get("order_decl"):
                    data["_order"] = ty["order_decl"]
                elif list(ty["order"]) != list(range(len(ty["shape"]))):
                    data["_order"] = tuple(ty["order"])
                cls = type(ty["name"], (xo.Array,), data)
        elif k == "ref":
            cls = xo.Ref[out[ty["to"]]]
        elif k == "uref":
            data = {"_reftypes": [out[m] for m in ty["members"]]}
            if ty.get("depends"):
                data["_depends_on"] = [out[d] for d in ty["depends"]]  # declared dependencies of a union (classes its methods use)
            cls = type(ty["name"], (xo.UnionRef,), data)
        else:
            raise ValueError(k)
        if module is not None and k in ("struct", "array", "uref"):
            try:
                cls.__module__ = module.__name__
                cls.__qualname__ = cls.__name__
            except (AttributeError, TypeError):
                pass
            setattr(module, cls.__name__, cls)
        out.append(cls)
    return out
