#!/venv/bin/python
"""Rewrites the catch-matrix table of DESIGN.md (between the CATCH markers) from selftest logs.
usage: catch_matrix.py <log> [<log>...]   (later logs override earlier ones per mutant)"""
import json, os, re, sys, glob
V = os.path.dirname(os.path.dirname(os.path.abspath(__file__)))
rows = {}
for log in sys.argv[1:]:
    for line in open(log, errors="replace"):
        m = re.match(r"\[mutant\] (\S+): (C\d\d) exit (\d) \(want (\d)\) (\S+)\s*(.*)", line)
        if m:
            name, prop, rc, want, verdict, rest = m.groups()
            r = rows.setdefault(name, {"lenses": {}})
            orc = re.search(r"run=(\d+) oracle=(\S+)", rest)
            r["lenses"][prop] = (int(rc), int(want), verdict, orc.groups() if orc else None)
            continue
        m = re.match(r"\[mutant\] (\S+): (C\d\d) exit (\d) \((caught|quiet)\)\s*(.*)", line)
        if m:
            name, prop, rc, verdict, rest = m.groups()
            r = rows.setdefault(name, {"lenses": {}})
            orc = re.search(r"run=(\d+) oracle=(\S+)", rest)
            r["lenses"][prop] = (int(rc), 1, "OK" if verdict == "caught" else "quiet", orc.groups() if orc else None)
            continue
        m = re.match(r"\[mutant\] (\S+): any of .* -> caught by (\[.*?\]) (\S+)", line)
        if m:
            rows.setdefault(m.group(1), {"lenses": {}})["any"] = (m.group(2), m.group(3))
def what(name):
    for d in (os.path.join(V, "seeded", name), ):
        mp = os.path.join(d, "meta.json")
        if os.path.exists(mp):
            for f in ("notes.md", "README.txt"):
                fp = os.path.join(d, f)
                if os.path.exists(fp):
                    for l in open(fp):
                        l = l.strip().lstrip("#").strip()
                        if len(l) > 12:
                            return "seeded", l[:110]
    jp = os.path.join(V, "selftest", "mutants", name + ".json")
    if os.path.exists(jp):
        return "mutant", json.load(open(jp)).get("note", "")[:110]
    return "?", ""
out = ["| change | kind | what it does | caught by (first failing run, oracle) | quiet lenses |", "|---|---|---|---|---|"]
def key(n):
    m = re.match(r"[cC](\d\d)[-_](.*)", n)
    return (int(m.group(1)) if m else 99, n[0] == "c", n)
missed = []
for name in sorted(rows, key=key):
    r = rows[name]
    kind, desc = what(name)
    caught = [f"{p} (run {o[0]}, {o[1]})" if o else p for p, (rc, want, v, o) in r["lenses"].items() if want == 1 and rc == 1]
    notc = [p for p, (rc, want, v, o) in r["lenses"].items() if want == 1 and rc != 1]
    quiet = [p for p, (rc, want, v, o) in r["lenses"].items() if want == 0 and rc == 0]
    loud = [p for p, (rc, want, v, o) in r["lenses"].items() if want == 0 and rc != 0]
    c = "; ".join(caught) if caught else "**MISSED**"
    if notc and caught:
        c += f" (not by {', '.join(notc)})"
    if not caught:
        missed.append(name)
    out.append(f"| {name} | {kind} | {desc.replace('|', '/')} | {c} | {', '.join(quiet)}{' LOUD: ' + ', '.join(loud) if loud else ''} |")
out.append("")
out.append(f"{len(rows)} changes, {len(rows) - len(missed)} caught" + (f"; not caught: {', '.join(missed)}" if missed else "") + ".")
p = os.path.join(V, "DESIGN.md")
s = open(p).read()
table = "<!-- CATCH-BEGIN -->\n" + "\n".join(out) + "\n<!-- CATCH-END -->"
if "@@CATCH_MATRIX@@" in s:
    s = s.replace("@@CATCH_MATRIX@@", table)
else:
    s = re.sub(r"<!-- CATCH-BEGIN -->.*?<!-- CATCH-END -->", lambda m: table, s, flags=re.S)
open(p, "w").write(s)
print(out[-1])
