#!/venv/bin/python
"""Child of a cold restart (sim/coldload.py): a fresh interpreter that declares the classes of a
schema again, loads a pickle and reports what it reads.  stdin: one JSON line, stdout: COLD <json>."""
import os
import sys
import warnings

HERE = os.path.dirname(os.path.dirname(os.path.abspath(__file__)))
sys.path.insert(0, HERE)
warnings.filterwarnings("ignore")
from sim import coldload  # noqa: E402

sys.exit(coldload.child_main())
