#!/bin/bash
# usage: confirm_seed.sh <dir with patch.diff demo.py> <out log>
# Confirms, in a fresh scratch worktree of /repo HEAD: patch applies, full suite passes with it,
# demo fails with it, demo passes without it.  Removes the worktree afterwards.
set -u
src=$1; log=$2
wt=$(mktemp -d /tmp/confirm_wt_XXXXXX); rmdir $wt
git -C /repo worktree add -q --detach $wt HEAD || { echo "worktree failed" > $log; exit 2; }
{
echo "repo HEAD $(git -C /repo rev-parse --short HEAD)"
cd $wt
if ! git apply $src/patch.diff; then echo "RESULT patch_does_not_apply"; cd /; git -C /repo worktree remove --force $wt; exit 1; fi
XO_REPO=$wt PYTHONPATH=$wt /venv/bin/python -m pytest -q -p no:cacheprovider --timeout=900 tests 2>&1 | tail -2
suite=${PIPESTATUS[0]}
XO_REPO=$wt PYTHONPATH=$wt timeout 300 /venv/bin/python $src/demo.py > /tmp/demo_out_$$ 2>&1; with=$?
tail -3 /tmp/demo_out_$$
git checkout -q -- .
XO_REPO=$wt PYTHONPATH=$wt timeout 300 /venv/bin/python $src/demo.py > /tmp/demo_out_$$ 2>&1; without=$?
rm -f /tmp/demo_out_$$
echo "RESULT suite_exit=$suite demo_with_patch_exit=$with demo_without_patch_exit=$without"
cd /
git -C /repo worktree remove --force $wt
} > $log 2>&1
