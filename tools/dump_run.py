#!/venv/bin/python
"""dump_run.py <prop> <index> [seed] -> /tmp/run_<prop>_<index>.json (full result incl. replay)"""
import os, sys, json
if os.environ.get('PYTHONHASHSEED')!='0':
    os.environ['PYTHONHASHSEED']='0'; os.execv(sys.executable,[sys.executable]+sys.argv)
sys.path.insert(0,'/verif')
import warnings; warnings.filterwarnings('ignore')
from sim import driver, core
prop=sys.argv[1]; i=int(sys.argv[2]); seed=int(sys.argv[3]) if len(sys.argv)>3 else 0
d=driver.one_run(prop,seed,i,'quick',True)
p=f'/tmp/run_{prop}_{i}.json'
json.dump(d,open(p,'w'),indent=1,default=core._json_default)
print(p, [ (v['property'],v['oracle']) for v in d['all_viol']])
