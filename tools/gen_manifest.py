#!/venv/bin/python
"""Regenerates /verif/MANIFEST.json from the table below and validates it."""
import json
import os
import sys

HERE = os.path.dirname(os.path.dirname(os.path.abspath(__file__)))
PY = "/venv/bin/python"

BASELINE_CMD = "cd /repo && /venv/bin/python -m pytest -ra -q -p no:cacheprovider --timeout=900 --continue-on-collection-errors"

ENGINES = [
    dict(name="bufsim", path="sim/bufsim.py", serves_properties=["C04", "C12", "C13"], kind_free_text="deterministic simulation of buffer/allocator histories with injected storage-allocation failures, step-by-step refinement against an executable first-fit specification and a whole-buffer shadow"),
    dict(name="objsim", path="sim/objsim.py", serves_properties=["C01", "C03", "C05", "C06", "C08", "C09", "C10", "C11", "C20"], kind_free_text="deterministic simulation of object-graph histories in relocating / fragmented / dirty storage against a Python reference model and an independent layout decoder"),
    dict(name="capisim", path="sim/capisim.py", serves_properties=["C02", "C07", "C14", "C17"], kind_free_text="object-graph simulation with compiled C accessor clients as additional readers/writers of the shared storage"),
    dict(name="hybridsim", path="sim/hybridsim.py", serves_properties=["C18", "C19"], kind_free_text="deterministic simulation of hybrid-class histories (set/copy/move/dict/pickle) against a value+ownership model"),
    dict(name="devsim", path="sim/devsim.py", serves_properties=["C15", "C16"], kind_free_text="simulated OpenCL/CUDA devices: fake runtimes, host-compiled sanitized device process, seeded work-item schedules"),
]

# property -> (engine, technique, level text, level note, design ref)
CHECKS = {
    "C04": ("bufsim", "deterministic simulation: seeded allocate/free/grow histories with injected storage-allocation failures and forced relocation, invariants + shadow bytes checked after every step", "Seeded exploration of allocator histories (tiny scopes sampled densely, plus deep walks) on both CPU buffer kinds and all alignment/grow-step configurations; every step checks bounds, alignment, disjointness and byte preservation against a shadow. Evidence, not proof: samples the history space.", "Trusted: the 150-line allocator specification and shadow-byte bookkeeping in sim/allocspec.py and sim/bufsim.py; numpy/bytearray semantics.", "DESIGN.md §3.1, §4 C04"),
    "C12": ("bufsim", "deterministic simulation: step-by-step refinement of the real allocator against an executable first-fit free-list specification over seeded histories", "Each allocate offset, each growth decision and each get_free() is compared with an executable first-fit specification after every step of seeded histories biased toward exact fills, empty free lists and merging frees. Behavioural observations only (offsets, capacity, get_free, exceptions).", "Trusted: sim/allocspec.py as the meaning of 'first fit'; growth amount deliberately unspecified; zero-size requests only checked for bounds/alignment.", "DESIGN.md §3.1, §4 C12"),
    "C13": ("bufsim", "deterministic simulation: shadow-buffer refinement of every CPU copy primitive, op by op, with held copies/views re-checked after later writes and relocations", "Every primitive is executed at seeded (offset,length) inside live regions of small and large buffers of both kinds; the whole buffer is compared with the expected image after each call; extracted copies and typed views are kept and re-checked across later steps (aliasing/independence).", "Trusted: numpy for the independent dtype-conversion expectation; mixed buffer kinds under one context are not generated (not a configuration ContextCpu produces).", "DESIGN.md §3.1, §4 C13"),
}

NOT_YET = "check not built yet in this revision (engine under construction, see DESIGN.md build order); will be claimed or given its final not-applicable reason when the engine lands"


def main():
    props = [json.loads(l)["id"] for l in open(os.path.join(HERE, "properties.jsonl"))]
    sys.path.insert(0, HERE)
    from sim import driver

    checks = []
    na = []
    for p in props:
        if p in CHECKS and p in driver.PROPS:
            eng, tech, text, note, ref = CHECKS[p]
            checks.append(
                {
                    "property_id": p,
                    "quick_cmd": f"timeout 900 {PY} check.py {p} --tier quick",
                    "thorough_cmd": f"timeout 3000 {PY} check.py {p} --tier thorough",
                    "evidence_file": f"evidence/{p}.json",
                    "replay_cmd_template": f"{PY} check.py {p} --replay {{path}}",
                    "engine": eng,
                    "level_claimed": {"category": "exploration", "text": text, "design_ref": ref},
                    "level_note": note,
                    "technique": tech,
                }
            )
        else:
            na.append({"property_id": p, "reason": NA_REASONS.get(p, NOT_YET)})
    hooks_commits = []
    m = {
        "version": 1,
        "setup_cmd": f"{PY} tools/setup_check.py",
        "hooks": {
            "guard": "XOBJECTS_VERIF",
            "enable": "no source hook is needed: every seam is an overridable method, constructor argument or module attribute set by the harness (DESIGN.md §2.2)",
            "baseline_off_cmd": BASELINE_CMD,
            "source_commits": hooks_commits,
            "add_only": True,
        },
        "engines": [e for e in ENGINES if any(p in driver.PROPS for p in e["serves_properties"])],
        "checks": checks,
        "notes": "All checks are deterministic simulations with fault injection (one VERIF_SEED -> exactly repeatable runs); see DESIGN.md. Genuine defects of the pinned tree were repaired by 'fix:' commits in /repo and are listed in known_findings.json under 'fixed'.",
        "not_applicable": na,
    }
    path = os.path.join(HERE, "MANIFEST.json")
    with open(path, "w") as f:
        json.dump(m, f, indent=1)
    try:
        import jsonschema

        jsonschema.validate(m, json.load(open("/root/.vp/MANIFEST.schema.json")))
        print("MANIFEST.json valid;", len(checks), "checks,", len(na), "not_applicable")
    except ImportError:
        print("MANIFEST.json written (jsonschema not available to validate)")


NA_REASONS = {}

if __name__ == "__main__":
    main()
