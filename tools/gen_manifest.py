#!/venv/bin/python
"""Regenerates /verif/MANIFEST.json from the table below and validates it."""
import json
import os
import sys

HERE = os.path.dirname(os.path.dirname(os.path.abspath(__file__)))
PY = "/venv/bin/python"

BASELINE_CMD = "cd /repo && /venv/bin/python -m pytest -ra -q -p no:cacheprovider --timeout=900 --continue-on-collection-errors"

ENGINES = [
    dict(name="bufsim", path="sim/bufsim.py", serves_properties=["C04", "C12", "C13"], kind_free_text="deterministic simulation of buffer/allocator histories with injected storage-allocation failures, step-by-step refinement against an executable first-fit specification and a whole-buffer shadow"),
    dict(name="objsim", path="sim/objsim.py", serves_properties=["C01", "C03", "C05", "C06", "C08", "C09", "C10", "C11", "C20"], kind_free_text="deterministic simulation of object-graph histories in relocating / fragmented / dirty storage against a Python reference model and an independent layout decoder"),
    dict(name="depsim", path="sim/depsim.py", serves_properties=["C14"], kind_free_text="deterministic simulation of kernel-build histories over generated class dependency graphs with the class-set iteration order owned by the seeded scheduler"),
    dict(name="capisim", path="sim/capisim.py", serves_properties=["C02", "C07", "C17"], kind_free_text="object-graph simulation with compiled C accessor clients as additional readers/writers of the shared storage"),
    dict(name="hybridsim", path="sim/hybridsim.py", serves_properties=["C18", "C19"], kind_free_text="deterministic simulation of hybrid-class histories (set/copy/move/dict/pickle) against a value+ownership model"),
    dict(name="devsim", path="sim/devsim.py", serves_properties=["C16"], kind_free_text="simulated OpenCL/CUDA devices: fake runtimes, host-compiled sanitized device process, seeded work-item schedules"),
]

# property -> (engine, technique, level text, level note, design ref)
CHECKS = {
    "C04": ("bufsim", "deterministic simulation: seeded allocate/free/grow histories with injected storage-allocation failures and forced relocation, invariants + shadow bytes checked after every step", "Seeded exploration of allocator histories (tiny scopes sampled densely, plus deep walks) on both CPU buffer kinds and all alignment/grow-step configurations; every step checks bounds, alignment, disjointness and byte preservation against a shadow. Evidence, not proof: samples the history space.", "Trusted: the 150-line allocator specification and shadow-byte bookkeeping in sim/allocspec.py and sim/bufsim.py; numpy/bytearray semantics.", "DESIGN.md §3.1, §4 C04"),
    "C12": ("bufsim", "deterministic simulation: step-by-step refinement of the real allocator against an executable first-fit free-list specification over seeded histories", "Each allocate offset, each growth decision and each get_free() is compared with an executable first-fit specification after every step of seeded histories biased toward exact fills, empty free lists and merging frees. Behavioural observations only (offsets, capacity, get_free, exceptions).", "Trusted: sim/allocspec.py as the meaning of 'first fit'; growth amount deliberately unspecified; zero-size requests only checked for bounds/alignment.", "DESIGN.md §3.1, §4 C12"),
    "C13": ("bufsim", "deterministic simulation: shadow-buffer refinement of every CPU copy primitive, op by op, with held copies/views re-checked after later writes and relocations", "Every primitive is executed at seeded (offset,length) inside live regions of small and large buffers of both kinds; the whole buffer is compared with the expected image after each call; extracted copies and typed views are kept and re-checked across later steps (aliasing/independence).", "Trusted: numpy for the independent dtype-conversion expectation; mixed buffer kinds under one context are not generated (not a configuration ContextCpu produces).", "DESIGN.md §3.1, §4 C13"),
    "C01": ("objsim", "deterministic simulation: seeded worlds of generated types constructed into relocating / fragmented / dirty storage, full read-back against a reference model after every step", "Every run generates a type schema over the whole grammar and constructs objects with every input form (plain data, ndarray incl. Fortran/strided, xobject, capacity, dimensions) at every placement into buffers that are being fragmented, dirtied and relocated (relocation fires inside constructors that allocate reference targets); every field/item/nested accessor and to_nplike/to_nparray is compared with the model after construction and again after every later step.", "Trusted: sim/model.py (value model) and numpy scalar conversion; type x value space is sampled (seeded), not enumerated; contents the input form does not define (Arr(n)) are not checked.", "DESIGN.md §3.2, §4 C01"),
    "C03": ("objsim", "deterministic simulation: byte-diff of every buffer against the pre-step snapshot, with poisoned neighbours, after every construct/assign/bind/copy step", "Objects are built between live neighbours and harness-owned poisoned regions; after every step every changed byte must lie inside the extents allocated during the step or inside the allocation holding the addressed element; reported sizes are compared with the independent decoder's extent and with the reservation.", "Trusted: allocation log taken at the allocate seam; independent decoder (sim/layout.py) for extents.", "DESIGN.md §3.2, §4 C03"),
    "C05": ("objsim", "deterministic simulation: an independent decoder of the documented layout is run over the raw bytes of every live object after every step of seeded histories", "A decoder written only from the documented format (no xobjects import) must recover from the raw bytes the value the library itself reads back, with every part on a slot boundary, size words equal to extents and stored dims/strides equal to the computed ones; checked after every mutation and relocation, not only after construction. Weak fit for the technique: simulation contributes placement and history, the type dimension is seeded generation.", "Trusted: sim/layout.py as the reading of Architecture.md / types.rst fixed in DESIGN.md §3.2; value comparison only where the library's own reading equals the model.", "DESIGN.md §3.2, §4 C05"),
    "C06": ("objsim", "deterministic simulation: every kept constructor handle is compared with a view freshly rebuilt from (buffer, offset) after every step; writes alternate between both", "Value at every index, shape, strides and size of handle and rebuilt view are compared at every nesting level after every step (never consulting the model); histories drop handles, write through views and handles alternately, and relocate storage between taking and using a view.", "Trusted: nothing beyond the harness' reader (read_handle / handle_meta in sim/objsim.py).", "DESIGN.md §3.2, §4 C06"),
    "C08": ("objsim", "deterministic simulation: histories over {construct, bind-to-existing/value/foreign/null, write-through-ref, write-through-original, allocate-until-growth} with relocation inside binds, aliasing model compared after every step", "The model holds references as Python references (aliasing by identity); after every step every reference must resolve inside its own buffer, inside a live allocation, to the location and member type of its model node, and all values (through references) must equal the model; buffers are grown and relocated throughout.", "Trusted: sim/model.py aliasing semantics as stated in the property; C typeid/member agreement is checked under C02.", "DESIGN.md §3.2, §4 C08"),
    "C09": ("objsim", "deterministic simulation: copy-construction to same buffer / other buffer / other context inside histories that keep writing to source and copy, two separate models", "Equality at copy time, extent disjointness, reference targets resolving inside the copy's own buffer (same referent when the buffer is shared, duplicate otherwise); afterwards source and copy follow separate models under further writes, growth and relocation.", "Trusted: sim/model.py copy semantics as stated in the property.", "DESIGN.md §3.2, §4 C09"),
    "C10": ("objsim", "deterministic simulation: long histories of leaf and whole-compound assignments through handles and rebuilt views interleaved with growth, whole-world model compared after every step", "After every assignment the whole world (every object, through handle, rebuilt view and decoder) is compared with a model changed at exactly that element, and the decoder's layout map (sizes, shapes, capacities, offsets) of every object must be unchanged.", "Trusted: sim/model.py; assignment of reference-bearing compounds is outside the property's alphabet and not generated.", "DESIGN.md §3.2, §4 C10"),
    "C11": ("objsim", "deterministic simulation with misuse injection: operations that cannot be honoured are issued against objects with live neighbours; exception + whole-world unchanged checked", "Misuse catalogue (index outside shape, update of other length/shape, string or item too large, non-member union value, buffer/context mismatch, offset without buffer) injected into histories; an exception must be raised and every pre-existing object's value and bytes must be unchanged. Two recorded known findings (non-atomic compound updates) are replayed on every run and quarantined from random generation.", "Trusted: the catalogue's classification of what cannot be honoured (DESIGN.md §4 C11, §5 ambiguities).", "DESIGN.md §3.2, §4 C11"),
    "C20": ("objsim", "deterministic simulation with restart injection: groups of handles are pickled and reloaded at arbitrary points, history continues on both sides against two models", "restart(group) at seeded points for groups sharing and not sharing buffers; restored objects must equal the model, be usable for further reads/writes/constructions, be independent of the original storage, and share buffers exactly as before; the restored buffer keeps working as an allocator (later allocations checked for overlap).", "Trusted: in-process pickle round trip (as in the property's observe_at); classes registered in an importable module.", "DESIGN.md §3.2, §4 C20"),
    "C02": ("capisim", "deterministic simulation: compiled C accessors run as a third reader of the shared storage inside seeded object histories (relocation, fragmentation, dirty reuse); values vs model, addresses vs independent decoder", "Per world the real add_kernels path compiles the accessor API of every generated type; c_read sweeps objects and nested parts (through fields, indices and references, all in-range index tuples) with _get/_getp/_len/_typeid/_member at arbitrary offsets of relocated buffers; every value is compared with the model and every address with the layout map of the independent decoder; a final sweep covers every live object. Weak fit: the type dimension is seeded generation; the symbolic all-indices reading is not claimed.", "Trusted: sim/layout.py for addresses, sim/model.py for values; cffi for the call itself.", "DESIGN.md §3.3, §4 C02"),
    "C07": ("capisim", "deterministic simulation: C setters interleaved with Python writes and relocation; byte diff restricted to the addressed leaf, whole world re-read against a model changed at one leaf; sanitizer run of the emitted source on exact-size images", "c_set writes type-extreme values through <T>_set... on every scalar-leaf path (top objects and nested views, through references); after each call every byte outside the leaf's decoded extent must be unchanged and every object (handle, rebuilt view, decoder) must equal the model changed at exactly that leaf.", "Trusted: decoder extents, model. Second sentence (sanitizers) is decided by the devsim accessor mode when built; until then only the first sentence is claimed.", "DESIGN.md §3.3, §4 C07"),
    "C17": ("capisim", "deterministic simulation: probe kernels with seeded signatures called inside object histories (growth, relocation, nested objects, array slices); what C received is compared byte-for-byte with what Python holds now; malformed calls must be refused", "Per world 4-9 probe kernels over {10 scalar types by value, const/non-const pointer-to-scalar, struct/array/union xobjects} with scalar or void return are compiled by the real add_kernels path; calls pass type extremes (python and numpy scalar forms), ndarrays, slices, strided and 2-D arrays, xobject arrays (also nested / behind references) and objects at any offset after relocation; the kernel records what it saw; non-const pointers are written through and must be visible from Python; positional / missing / extra arguments and arrays of the wrong element type must raise and change nothing.", "Trusted: the probe source generated by sim/cprobes.py; cffi. Serial and OpenMP CPU contexts only.", "DESIGN.md §3.3, §4 C17"),
    "C14": ("depsim", "deterministic simulation: histories of sort_classes / add_kernels builds over generated dependency graphs with the class-set iteration order (address-hash order in the library) owned by the seeded scheduler", "Generated graphs over structs (with and without fields), arrays, references, unions, declared _depends_on edges (including cycle-closing ones) and HybridClass declarations; per run 1-6 builds with seeded root subsets/orders (roots named twice included) and a seeded permutation injected at the classes_from_kernels seam; every build is compiled by the real cffi/gcc path; the listed/emitted classes are compared with the harness's own closure: each reachable API exactly once, after its dependencies, nothing else, cycles raise. Weak fit: simulation contributes control of an otherwise address-dependent order (replayability); the graph dimension is seeded generation.", "Trusted: the dependency relation as computed by sim/depsim.py from the schema; guard-block scan of the emitted source.", "DESIGN.md §4 C14"),
    "C18": ("hybridsim", "deterministic simulation: histories of {construct, set field, nested assignment, reference bind, copy, move, raw writes through _xobject, growth/relocation, pickle restart} on generated hybrid classes; attribute == buffer data == model and nested dressed parts in sync after every step", "Generated HybridClass definitions over scalars, strings, scalar arrays of any shape/order, nested hybrid classes (chains), references to hybrid classes, renamed fields and defaults; after every step every live dressed object is read recursively through its Python attributes and compared with its _xobject and with the reference model, and every nested dressed part must sit where the parent's buffer data places it; copy-assignment independence, reference sharing, cross-buffer refusal (with unchanged state), copy equality/independence, move relocation and refusals are post-conditions of the corresponding steps.", "Trusted: sim/model.py; pure-Python attributes are not modelled; reference-bearing nested assignment and moves of reference targets are not generated.", "DESIGN.md §3.5, §4 C18"),
    "C19": ("hybridsim", "deterministic simulation: from_dict(to_dict(h)) and T(x._to_json()) issued at arbitrary points of hybrid / object histories, rebuilt object compared with the model, default elision checked against declared defaults", "to_dict/from_dict round trips on generated hybrid classes (renames, defaults, default factories, nested hybrids, references, N-D and empty arrays, strings) at seeded points of histories with values deliberately equal to and different from defaults; keys equal to the declared (or implicit zero) default must be absent and the rebuilt object must equal the original field by field (a field omitted as equal to its default may come back as +0.0 for -0.0). JSON rebuild of reference-free structs and 1-D arrays through the ObjSim json profile. Weak fit: the rebuild is a function of the object; histories only sample states constructors alone do not reach.", "Trusted: sim/model.py; value (not bit-pattern) equality for fields omitted as default.", "DESIGN.md §3.5, §4 C19"),
    "C16": ("devsim", "deterministic simulation: generated annotated kernel programs built by the real CPU/OpenCL/CUDA context code and executed on a stub device, one host call per work-item in a seeded schedule (identity, reverse, shuffles, block-wise shuffles), CUDA tail threads included; hit counters, guard cells and a per-target model checked after every launch", "Programs over the whole annotation vocabulary (1-3 kernels, 1-3 vectorize blocks each with chaining at the same index, gpufun helpers, gpuglmem/restrict qualifiers, only_for_context lines that change the arithmetic, include_file with present and (for contexts not built) missing files, unannotated filler); n in {0,1,2,3,block-1,block,block+1,2*block+3,...}, CUDA block size in {1,2,3,4,32,256}; serial and OpenMP CPU contexts through cffi, OpenCL and CUDA through the real build_kernels/__call__ against fake pyopencl/cupy modules. After every launch: each block ran exactly once for every index < n and never for another, guard cells untouched, result arrays equal to the model's per-target expectation; per build: included text present exactly for the named contexts, restricted lines active exactly there, unannotated lines verbatim and in order.", "Trusted: fidelity of the stub platform (sim/device.py): a work-item is one call of the kernel function with get_global_id / blockIdx*blockDim+threadIdx set by the launcher; out-of-bounds writes are observed through guard cells, not a sanitizer.", "DESIGN.md §3.4, §4 C16"),
}

NOT_YET = "check not built yet in this revision (engine under construction, see DESIGN.md build order); will be claimed or given its final not-applicable reason when the engine lands"


def main():
    props = [json.loads(l)["id"] for l in open(os.path.join(HERE, "properties.jsonl"))]
    sys.path.insert(0, HERE)
    from sim import driver

    checks = []
    na = []
    for p in props:
        if p in CHECKS and p in driver.PROPS:
            eng, tech, text, note, ref = CHECKS[p]
            checks.append(
                {
                    "property_id": p,
                    "quick_cmd": f"timeout 900 {PY} check.py {p} --tier quick",
                    "thorough_cmd": f"timeout 3000 {PY} check.py {p} --tier thorough",
                    "evidence_file": f"evidence/{p}.json",
                    "replay_cmd_template": f"{PY} check.py {p} --replay {{path}}",
                    "engine": eng,
                    "level_claimed": {"category": "exploration", "text": text, "design_ref": ref},
                    "level_note": note,
                    "technique": tech,
                }
            )
        else:
            na.append({"property_id": p, "reason": NA_REASONS.get(p, NOT_YET)})
    hooks_commits = []
    m = {
        "version": 1,
        "setup_cmd": f"{PY} tools/setup_check.py",
        "hooks": {
            "guard": "XOBJECTS_VERIF",
            "enable": "no source hook is needed: every seam is an overridable method, constructor argument or module attribute set by the harness (DESIGN.md §2.2)",
            "baseline_off_cmd": BASELINE_CMD,
            "source_commits": hooks_commits,
            "add_only": True,
        },
        "engines": [e for e in ENGINES if any(p in driver.PROPS for p in e["serves_properties"])],
        "checks": checks,
        "notes": "All checks are deterministic simulations with fault injection (one VERIF_SEED -> exactly repeatable runs); see DESIGN.md. Genuine defects of the pinned tree were repaired by 'fix:' commits in /repo and are listed in known_findings.json under 'fixed'.",
        "not_applicable": na,
    }
    path = os.path.join(HERE, "MANIFEST.json")
    with open(path, "w") as f:
        json.dump(m, f, indent=1)
    try:
        import jsonschema

        jsonschema.validate(m, json.load(open("/root/.vp/MANIFEST.schema.json")))
        print("MANIFEST.json valid;", len(checks), "checks,", len(na), "not_applicable")
    except ImportError:
        print("MANIFEST.json written (jsonschema not available to validate)")


NA_REASONS = {}

if __name__ == "__main__":
    main()
