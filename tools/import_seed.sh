#!/bin/bash
# usage: import_seed.sh <agent out dir> <A|B> <seeded name e.g. C04-1> <property>
# Copies patch/demo/notes of a sub-agent into /verif/seeded/<name>/, confirms it in a fresh
# scratch worktree (patch applies, suite passes, demo fails with / passes without), writes meta.json.
set -u
src=$1; K=$2; name=$3; prop=$4
dst=/verif/seeded/$name
mkdir -p $dst
cp $src/patch$K.diff $dst/patch.diff
cp $src/demo$K.py $dst/demo.py
cp $src/notes$K.md $dst/notes.md
bash /verif/tools/confirm_seed.sh $dst $dst/confirm.log
res=$(grep RESULT $dst/confirm.log)
echo "$name: $res"
/venv/bin/python - "$dst" "$prop" "$res" <<'P'
import json, sys, os
dst, prop, res = sys.argv[1:4]
notes = open(os.path.join(dst, "notes.md")).read()
meta = {
 "property": prop,
 "patch": "patch.diff",
 "demo": "demo.py",
 "origin": "independent sub-agent given only the property text and a scratch worktree",
 "needs_to_manifest": "see notes.md",
 "confirmed": res.strip(),
 "ran": ["tools/confirm_seed.sh (fresh worktree of /repo HEAD: git apply patch.diff; full pytest suite; demo.py with and without the patch)"],
 "quiet": [],
}
json.dump(meta, open(os.path.join(dst, "meta.json"), "w"), indent=1)
P
