#!/bin/bash
# Runs every claimed check at the given tier (default quick) and prints one summary line each.
tier=${1:-quick}
cd /verif
for p in $(/venv/bin/python -c "import json;print(' '.join(c['property_id'] for c in json.load(open('MANIFEST.json'))['checks']))"); do
  out=$(timeout 3400 /venv/bin/python check.py $p --tier $tier 2>&1); rc=$?
  echo "$p exit=$rc $(echo "$out" | grep -E '^\[C.*runs=' | tail -1)"
  echo "$out" | grep -E "VIOLATION|HARNESS-ERROR|KNOWN-FINDING" | cut -c1-300
done
