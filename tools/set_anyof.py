#!/venv/bin/python
"""usage: set_anyof.py <seed name> <Cxx> [<Cxx>...]  — records the neighbouring lenses at which a seeded change may first show (DESIGN 3.2)"""
import json, sys, os
V = os.path.dirname(os.path.dirname(os.path.abspath(__file__)))
p = os.path.join(V, "seeded", sys.argv[1], "meta.json")
m = json.load(open(p))
m["any_of"] = [m["property"]] + [x for x in sys.argv[2:] if x != m["property"]]
m["note"] = "the oracles attribute the first observable effect of a change to the property of the step at which it shows (DESIGN 3.2): this change is written against one property but its first effect can belong to a neighbouring property's lens; it counts as caught when any of the listed lenses reports it"
json.dump(m, open(p, "w"), indent=1)
