#!/venv/bin/python
"""setup_cmd: verifies, offline, that the interpreter has what the checks need.
Nothing is built ahead of time: every check compiles generated C on demand in a
scratch directory that it removes on exit."""
import shutil
import sys

ok = True
for mod in ("numpy", "cffi", "scipy"):
    try:
        __import__(mod)
    except Exception as e:  # pragma: no cover
        print("missing", mod, e)
        ok = False
for tool in ("gcc",):
    if shutil.which(tool) is None:
        print("missing", tool)
        ok = False
sys.path.insert(0, "/repo")
try:
    import xobjects  # noqa: F401
except Exception as e:
    print("cannot import xobjects from /repo:", e)
    ok = False
print("setup ok" if ok else "setup FAILED")
sys.exit(0 if ok else 1)
