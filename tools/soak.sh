#!/bin/bash
# Soak: every claimed check, quick tier, over a range of VERIF_SEED values, on the unchanged tree.
# usage: soak.sh <first seed> <last seed> [workers]   (writes soak_<first>_<last>.log in the cwd)
a=${1:-1}; b=${2:-10}; export VERIF_WORKERS=${3:-8}
out=soak_${a}_${b}.log
export VERIF_EVIDENCE_DIR=$PWD/soak_evidence VERIF_REPLAY_DIR=$PWD/soak_replays
props=$(/venv/bin/python -c "import json;print(' '.join(c['property_id'] for c in json.load(open('MANIFEST.json'))['checks']))")
for seed in $(seq $a $b); do
  for p in $props; do
    o=$(VERIF_SEED=$seed timeout 3400 /venv/bin/python check.py $p --tier quick 2>&1); rc=$?
    echo "seed=$seed $p exit=$rc $(echo "$o" | grep -E '^\[C.*runs=' | tail -1 | sed 's/.*runs=/runs=/')" >> $out
    if [ $rc -ne 0 ]; then echo "$o" | grep -E "VIOLATION|HARNESS|seed=|detail=" | cut -c1-600 >> $out; fi
  done
done
echo finished >> $out
