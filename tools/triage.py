#!/venv/bin/python
"""List distinct violation signatures (all properties) seen by a lens over N runs, with one detail each."""
import os, sys, json
if os.environ.get('PYTHONHASHSEED')!='0':
    os.environ['PYTHONHASHSEED']='0'; os.execv(sys.executable,[sys.executable]+sys.argv)
sys.path.insert(0,'/verif')
import warnings; warnings.filterwarnings('ignore')
import time
from sim import driver, core
prop=sys.argv[1]; n=int(sys.argv[2]); start=int(sys.argv[3]) if len(sys.argv)>3 else 0
seen={}
def fn(i):
    d=driver.one_run(prop,int(os.environ.get('VERIF_SEED','0')),i,'quick',False)
    return {'i':i,'v':d['all_viol'],'e':d.get('error')}
cnt={}
for d in core.pool_run(fn, range(start,start+n), 16, max(1,n//64), time.time()+3600, per_run_timeout=120):
    if d.get('error') or d.get('e'): print('ERR', d.get('i'), (d.get('error') or d.get('e'))[-1500:]); continue
    for v in d['v']:
        k=(v['property'],v['oracle'],tuple(v['signature']))
        cnt[k]=cnt.get(k,0)+1
        if k not in seen or seen[k][0]>d['i']: seen[k]=(d['i'],v['detail'])
for k,(i,det) in sorted(seen.items(), key=lambda kv:-cnt[kv[0]]):
    print(f"{cnt[k]:4d}x run={i} {k[0]} {k[1]} {list(k[2])}\n      {det[:int(os.environ.get('W','420'))]}")
print(len(seen),'distinct signatures')
